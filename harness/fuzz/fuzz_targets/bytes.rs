#![no_main]
//! Coverage-guided driver for the byte-input monitors. The property whose
//! monitors count is selected by $RTCPMON_PROP (default C01).
use libfuzzer_sys::fuzz_target;

fuzz_target!(|data: &[u8]| {
    rtcpmon::fuzz::one("bytes", data);
});
