#![no_main]
//! Coverage-guided driver for the builder-side monitors: the input bytes are
//! the entropy source from which a configuration is generated.
use libfuzzer_sys::fuzz_target;

fuzz_target!(|data: &[u8]| {
    rtcpmon::fuzz::one("cfg", data);
});
