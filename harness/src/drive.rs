//! Turning abstract configurations into calls on the real builders, and making
//! every call into the crate an *observed* call: `call()` is the only place
//! where an unwind is caught, so only there a panic is attributed to the crate.

use crate::cfg::{Cfg, Chunk, FbKind, Fci, Item, Rb};
use rtcp_types::prelude::*;
use rtcp_types::*;
use std::cell::RefCell;
use std::panic::{catch_unwind, AssertUnwindSafe};
use std::sync::Once;

#[derive(Clone, Debug, PartialEq, Eq)]
pub struct Panicked {
    pub msg: String,
    /// file:line of the panic site
    pub site: String,
}

thread_local! {
    static LAST_PANIC: RefCell<Option<Panicked>> = const { RefCell::new(None) };
    static IN_CALL: RefCell<u32> = const { RefCell::new(0) };
}

static HOOK: Once = Once::new();

pub fn install_panic_hook() {
    HOOK.call_once(|| {
        let default = std::panic::take_hook();
        std::panic::set_hook(Box::new(move |info| {
            let msg = if let Some(s) = info.payload().downcast_ref::<&str>() {
                s.to_string()
            } else if let Some(s) = info.payload().downcast_ref::<String>() {
                s.clone()
            } else {
                "<non-string panic payload>".to_string()
            };
            let site = info.location().map(|l| format!("{}:{}", l.file(), l.line())).unwrap_or_default();
            let inside = IN_CALL.with(|c| *c.borrow() > 0);
            if inside {
                LAST_PANIC.with(|p| *p.borrow_mut() = Some(Panicked { msg, site }));
            } else {
                // a panic outside `call` is a harness bug: let it be loud
                default(info);
            }
        }));
    });
}

/// Perform one observed call into the crate under test.
pub fn call<R>(f: impl FnOnce() -> R) -> Result<R, Panicked> {
    IN_CALL.with(|c| *c.borrow_mut() += 1);
    crate::watchdog::call_enter();
    let r = catch_unwind(AssertUnwindSafe(f));
    crate::watchdog::call_exit();
    IN_CALL.with(|c| *c.borrow_mut() -= 1);
    match r {
        Ok(v) => Ok(v),
        Err(_) => Err(LAST_PANIC
            .with(|p| p.borrow_mut().take())
            .unwrap_or(Panicked { msg: "<unknown>".into(), site: String::new() })),
    }
}

/// Signature feature for an unwind caught by `call`: the harness's own observation helpers raise two
/// kinds of "panic" that are not panics of the crate (an iterator exceeding its step bound, the provided
/// Iterator methods disagreeing with next()); they are named as what they are.
pub fn panic_feature(p: &Panicked) -> String {
    if p.msg.starts_with(crate::obs::ITER_INCONSISTENT_MSG) {
        "iterator-methods-disagree-with-next".to_string()
    } else if p.msg.starts_with(crate::obs::STEP_BOUND_MSG) {
        "iterator-exceeds-step-bound".to_string()
    } else {
        format!("panic@{}", site_file(&p.site))
    }
}

/// Source file of a panic site without the line number (stable under edits), e.g. `src/app.rs`.
pub fn site_file(site: &str) -> String {
    let s = short_site(site);
    match s.rfind(':') {
        Some(i) => s[..i].to_string(),
        None => s,
    }
}

/// Normalised panic site: path relative to the repository, e.g. `src/app.rs:67`.
pub fn short_site(site: &str) -> String {
    match site.rfind("/src/") {
        Some(i) => site[i + 1..].to_string(),
        None => site.to_string(),
    }
}

// ----------------------------------------------------------------------------

/// How a configuration is turned into builder calls.
#[derive(Clone, Copy, Debug, Default, PartialEq, Eq)]
pub struct How {
    /// use the owned API variants (reason_owned, add_item_owned/into_owned,
    /// native_data_owned, builder_owned)
    pub owned: bool,
    /// wrap the builder in `PacketBuilder::from` (built-in kinds only)
    pub wrap: bool,
    /// "probing" construction route: list entries first, padding last, and the observers
    /// `calculate_size()` / `get_padding()` called between the setter calls (as an application
    /// that sizes a packet before deciding on its padding does). Observers must not change the outcome.
    pub probe: bool,
    /// "re-configuration" route: the builder is first configured with *other* values for everything a later
    /// setter call can replace (a different, legal, non-zero padding; other scalar fields; another reason /
    /// payload / prefix), then sized and really written once into a scratch buffer (as an application does that
    /// keeps one builder around and re-sends with updated fields), and only then given the final values - the
    /// final padding also when it is 0. A repeated setter keeps the last value, and a packet written earlier
    /// must leave no trace in the next one.
    pub reconf: bool,
}

/// Number of construction routes (`hows(i)` for `i` in `0..ROUTES`).
pub const ROUTES: usize = 16;
pub fn hows(i: usize) -> How {
    How { owned: i & 1 == 1, wrap: i & 2 == 2, probe: i & 4 == 4, reconf: i & 8 == 8 }
}

/// The junk padding of the re-configuration route: legal, non-zero, different from the final one and (mostly) larger.
pub fn junk_pad(fin: u8) -> u8 {
    let j = match (fin / 4) % 3 {
        0 => 252,
        1 => 8,
        _ => 64,
    };
    if j == fin {
        12
    } else {
        j
    }
}

/// Sized adaptor so that the crate's blanket `RtcpPacketWriterExt::write_into`
/// (the real two-phase glue) can be driven through a trait object.
#[derive(Debug)]
pub struct DynW<'a>(pub &'a (dyn RtcpPacketWriter + 'a));
impl<'a> RtcpPacketWriter for DynW<'a> {
    fn calculate_size(&self) -> Result<usize, RtcpWriteError> {
        self.0.calculate_size()
    }
    fn write_into_unchecked(&self, buf: &mut [u8]) -> usize {
        self.0.write_into_unchecked(buf)
    }
    fn get_padding(&self) -> Option<u8> {
        self.0.get_padding()
    }
}

pub enum FciB<'a> {
    Nack(NackBuilder),
    Pli(PliBuilder),
    Sli(SliBuilder),
    Rpsi(RpsiBuilder<'a>),
    Fir(FirBuilder),
}

impl<'a> FciB<'a> {
    pub fn as_dyn(&'a self) -> &'a dyn FciBuilder<'a> {
        match self {
            FciB::Nack(b) => b,
            FciB::Pli(b) => b,
            FciB::Sli(b) => b,
            FciB::Rpsi(b) => b,
            FciB::Fir(b) => b,
        }
    }
}

thread_local! {
    /// probing route for the sub-builders too (FCI, SDES chunk / item): observers between their setters.
    /// Set by `with_writer` for the duration of a construction with `How.probe`.
    static PROBE_DEEP: std::cell::Cell<bool> = const { std::cell::Cell::new(false) };
}
fn probing() -> bool {
    PROBE_DEEP.with(|c| c.get())
}
pub fn set_probing(on: bool) {
    PROBE_DEEP.with(|c| c.set(on));
}
thread_local! {
    /// re-configuration route for the sub-builders too (report blocks, RPSI, SDES items): junk values first.
    static RECONF_DEEP: std::cell::Cell<bool> = const { std::cell::Cell::new(false) };
}
fn reconfing() -> bool {
    RECONF_DEEP.with(|c| c.get())
}
pub fn set_reconf(on: bool) {
    RECONF_DEEP.with(|c| c.set(on));
}
static JUNK_BITS: [u8; 7] = [0xe7; 7];
static JUNK_PFX: [u8; 5] = [0x5c; 5];

pub fn mk_nack(list: &[u16]) -> NackBuilder {
    let mut b = Nack::builder();
    for s in list {
        b = b.add_rtp_sequence(*s);
        if probing() {
            let _ = b.calculate_size();
        }
    }
    b
}
pub fn mk_sli(list: &[(u16, u16, u8)]) -> SliBuilder {
    let mut b = Sli::builder();
    for e in list {
        b = b.add_lost_macroblock(e.0, e.1, e.2);
        if probing() {
            let _ = b.calculate_size();
        }
    }
    b
}
pub fn mk_fir(list: &[(u32, u8)]) -> FirBuilder {
    let mut b = Fir::builder();
    for e in list {
        b = b.add_ssrc(e.0, e.1);
        if probing() {
            let _ = b.calculate_size();
        }
    }
    b
}
pub fn mk_rpsi<'a>(pt: u8, bits: &'a [u8], overrun: u8) -> RpsiBuilder<'a> {
    if reconfing() {
        let b = Rpsi::builder().payload_type(!pt & 0x7f).native_data(&JUNK_BITS[..], 3);
        let _ = b.calculate_size();
        return b.native_data(bits, overrun).payload_type(pt);
    }
    if probing() {
        // the other order of the two setters, with an observer in between
        let b = Rpsi::builder().native_data(bits, overrun);
        let _ = b.calculate_size();
        return b.payload_type(pt);
    }
    Rpsi::builder().payload_type(pt).native_data(bits, overrun)
}
pub fn mk_rpsi_owned(pt: u8, bits: &[u8], overrun: u8) -> RpsiBuilder<'static> {
    if reconfing() {
        let b = Rpsi::builder().native_data_owned(JUNK_BITS.to_vec(), 3).payload_type(!pt & 0x7f);
        let _ = b.calculate_size();
        return b.payload_type(pt).native_data_owned(bits.to_vec(), overrun);
    }
    if probing() {
        let b = Rpsi::builder().native_data_owned(bits.to_vec(), overrun);
        let _ = b.calculate_size();
        return b.payload_type(pt);
    }
    Rpsi::builder().payload_type(pt).native_data_owned(bits.to_vec(), overrun)
}

pub fn mk_fci<'a>(f: &'a Fci) -> FciB<'a> {
    match f {
        Fci::Nack(l) => FciB::Nack(mk_nack(l)),
        Fci::Pli => FciB::Pli(Pli::builder()),
        Fci::Sli(l) => FciB::Sli(mk_sli(l)),
        Fci::Rpsi { pt, bits, overrun } => FciB::Rpsi(mk_rpsi(*pt, bits, *overrun)),
        Fci::Fir(l) => FciB::Fir(mk_fir(l)),
    }
}

/// Pre-pass: one FCI builder per feedback configuration, in traversal order,
/// so that `builder(&fci)` (the borrowed API) can be used for every member.
pub fn make_fcis<'a>(cfg: &'a Cfg, out: &mut Vec<FciB<'a>>) {
    match cfg {
        Cfg::Fb { fci, .. } => out.push(mk_fci(fci)),
        Cfg::Compound(m) => {
            for c in m {
                make_fcis(c, out)
            }
        }
        _ => {}
    }
}

/// The six field setters of a report block are independent; an application calls them in whatever order its own
/// data arrives. The order used here is a permutation picked by the block's contents (deterministic per block, all
/// 720 occur over a workload), so that a setter with a side effect on a sibling field shows in every monitor that
/// builds a report, not only where histories are compared (C20).
fn rb_order(b: &Rb, salt: u64) -> [usize; 6] {
    let mut h = (b.ssrc as u64) << 32 | b.jitter as u64;
    h ^= ((b.lsr as u64) << 17) ^ ((b.dlsr as u64) << 3) ^ ((b.ext_seq as u64) << 29) ^ (b.cumulative as u64) ^ ((b.fraction as u64) << 56) ^ salt;
    let mut o = [0usize, 1, 2, 3, 4, 5];
    for i in (1..6).rev() {
        h = crate::source::mix(h, i as u64);
        o.swap(i, (h % (i as u64 + 1)) as usize);
    }
    o
}

fn rb_set(bld: ReportBlockBuilder, k: usize, b: &Rb, junk: bool) -> ReportBlockBuilder {
    match k {
        0 => bld.fraction_lost(if junk { !b.fraction } else { b.fraction }),
        1 => bld.cumulative_lost(if junk { !b.cumulative & 0xff_ffff } else { b.cumulative }),
        2 => bld.extended_sequence_number(if junk { !b.ext_seq } else { b.ext_seq }),
        3 => bld.interarrival_jitter(if junk { !b.jitter } else { b.jitter }),
        4 => bld.last_sender_report_timestamp(if junk { !b.lsr } else { b.lsr }),
        _ => bld.delay_since_last_sender_report_timestamp(if junk { !b.dlsr } else { b.dlsr }),
    }
}

pub fn mk_rb(b: &Rb) -> ReportBlockBuilder {
    let mut bld = ReportBlock::builder(b.ssrc);
    if reconfing() {
        // every field first set to another (legal) value
        for k in rb_order(b, 0x9e37) {
            bld = rb_set(bld, k, b, true);
        }
    }
    for k in rb_order(b, 0) {
        bld = rb_set(bld, k, b, false);
    }
    bld
}

/// The eight item kinds RFC 3550 names are configured the way an application names them: through the crate's
/// public constants (`SdesItem::CNAME` … `SdesItem::PRIV`), not through the number – so that a configuration
/// "a TOOL item" owes the RFC's type octet 6 on the wire whatever the constant says.
pub fn item_type_as_named(t: u8) -> u8 {
    match t {
        1 => SdesItem::CNAME,
        2 => SdesItem::NAME,
        3 => SdesItem::EMAIL,
        4 => SdesItem::PHONE,
        5 => SdesItem::LOC,
        6 => SdesItem::TOOL,
        7 => SdesItem::NOTE,
        8 => SdesItem::PRIV,
        o => o,
    }
}

pub fn mk_item<'a>(i: &'a Item) -> SdesItemBuilder<'a> {
    let mut b = SdesItem::builder(item_type_as_named(i.type_), i.value.as_str());
    if probing() {
        let _ = b.write_into(&mut []);
    }
    if !i.prefix.is_empty() {
        if reconfing() {
            b = b.prefix(&JUNK_PFX[..]);
            let _ = b.write_into(&mut []);
        }
        b = b.prefix(&i.prefix[..]);
    }
    b
}

pub fn mk_chunk<'a>(c: &'a Chunk, owned: bool) -> SdesChunkBuilder<'a> {
    let mut b = SdesChunk::builder(c.ssrc);
    for (k, i) in c.items.iter().enumerate() {
        if owned {
            // alternate between the two owned routes
            if k % 2 == 0 {
                b = b.add_item_owned(mk_item(i));
            } else {
                b = b.add_item(mk_item(i).into_owned());
            }
        } else {
            b = b.add_item(mk_item(i));
        }
        if probing() {
            // an application may write a partially configured chunk (e.g. to measure it) and go on adding items
            let _ = b.write_into(&mut []);
        }
    }
    b
}

pub trait Visit<'a> {
    type Out;
    fn visit<W: RtcpPacketWriter + 'a>(self, w: W) -> Self::Out;
}

struct BoxIt;
impl<'a> Visit<'a> for BoxIt {
    type Out = Box<dyn RtcpPacketWriter + 'a>;
    fn visit<W: RtcpPacketWriter + 'a>(self, w: W) -> Self::Out {
        Box::new(w)
    }
}

struct AddTo<'a>(CompoundBuilder<'a>);
impl<'a> Visit<'a> for AddTo<'a> {
    type Out = CompoundBuilder<'a>;
    fn visit<W: RtcpPacketWriter + 'a>(self, w: W) -> Self::Out {
        self.0.add_packet(w)
    }
}

/// Construct the real builder for `cfg` and hand it (as its concrete type) to `v`.
pub fn construct<'a, V: Visit<'a>>(
    cfg: &'a Cfg,
    how: How,
    fcis: &'a [FciB<'a>],
    next: &mut usize,
    v: V,
) -> V::Out {
    // The harness normally drives writers through `&dyn RtcpPacketWriter` (the blanket
    // `RtcpPacketWriterExt::write_into`). Here the *concrete* type is still known, so method syntax resolves
    // the way it does in an application (an inherent method, if one exists, shadows the trait's): when a
    // concrete outcome was requested for the top-level builder, take it now.
    macro_rules! hook {
        ($w:expr) => {{
            if concrete_depth() == 0 {
                if let Some(mut buf) = take_concrete_request() {
                    let size = $w.calculate_size();
                    let wrote = $w.write_into(&mut buf[..]);
                    put_concrete_result(size, wrote, buf);
                }
            }
        }};
    }
    macro_rules! out {
        ($b:expr) => {{
            let b = $b;
            if how.wrap {
                let w = PacketBuilder::from(b);
                hook!(w);
                v.visit(w)
            } else {
                hook!(b);
                v.visit(b)
            }
        }};
    }
    // observer calls between setters (probing route only)
    macro_rules! pr {
        ($b:expr) => {{
            let b = $b;
            if how.probe {
                let _ = b.calculate_size();
                let _ = b.get_padding();
            }
            b
        }};
    }
    // re-configuration route: size and really write the preliminary configuration once (results discarded)
    macro_rules! rc {
        ($b:expr) => {{
            let b = $b;
            if how.reconf {
                let _ = b.get_padding();
                if let Ok(n) = b.calculate_size() {
                    if n <= (1 << 20) {
                        let mut scratch = vec![0x5au8; n + 4];
                        let _ = b.write_into(&mut scratch[..]);
                    }
                }
            }
            b
        }};
    }
    // in the probing route the padding is set last, after a probe
    let pad_first = !how.probe;
    match cfg {
        Cfg::Sr { ssrc, ntp, rtp, pc, oc, blocks, padding } => {
            let mut b = SenderReport::builder(*ssrc);
            if how.reconf {
                b = rc!(b.padding(junk_pad(*padding)).ntp_timestamp(!*ntp).rtp_timestamp(!*rtp).packet_count(!*pc).octet_count(!*oc));
            }
            if pad_first {
                b = b.padding(*padding);
            }
            // the four scalar setters are independent: order picked by the contents (all 24 occur over a workload)
            {
                let mut h = crate::source::mix(*ntp ^ ((*ssrc as u64) << 7), ((*rtp as u64) << 32) | (*pc ^ oc.rotate_left(13)) as u64);
                let mut o = [0usize, 1, 2, 3];
                for i in (1..4).rev() {
                    h = crate::source::mix(h, i as u64);
                    o.swap(i, (h % (i as u64 + 1)) as usize);
                }
                for k in o {
                    b = match k {
                        0 => b.ntp_timestamp(*ntp),
                        1 => b.rtp_timestamp(*rtp),
                        2 => b.packet_count(*pc),
                        _ => b.octet_count(*oc),
                    };
                }
            }
            for (k, rb) in blocks.iter().enumerate() {
                b = pr!(b.add_report_block(mk_rb(rb)));
                if how.reconf && k == 0 {
                    // sized and written with one block and the junk / final padding, then more blocks follow
                    b = rc!(b.padding(junk_pad(*padding)));
                    b = b.padding(*padding);
                }
            }
            if !pad_first {
                b = pr!(pr!(b).padding(*padding));
            }
            out!(b)
        }
        Cfg::Rr { ssrc, blocks, padding } => {
            let mut b = ReceiverReport::builder(*ssrc);
            if how.reconf {
                b = rc!(b.padding(junk_pad(*padding)));
            }
            if pad_first {
                b = b.padding(*padding);
            }
            for (k, rb) in blocks.iter().enumerate() {
                b = pr!(b.add_report_block(mk_rb(rb)));
                if how.reconf && k == 0 {
                    b = rc!(b.padding(junk_pad(*padding)));
                    b = b.padding(*padding);
                }
            }
            if !pad_first {
                b = pr!(pr!(b).padding(*padding));
            }
            out!(b)
        }
        Cfg::Sdes { chunks, padding } => {
            let mut b = Sdes::builder();
            if how.reconf {
                b = rc!(b.padding(junk_pad(*padding)));
            }
            if pad_first {
                b = b.padding(*padding);
            }
            for (k, c) in chunks.iter().enumerate() {
                b = pr!(b.add_chunk(mk_chunk(c, how.owned)));
                if how.reconf && k == 0 {
                    b = rc!(b.padding(junk_pad(*padding)));
                    b = b.padding(*padding);
                }
            }
            if !pad_first {
                b = pr!(pr!(b).padding(*padding));
            }
            out!(b)
        }
        Cfg::Bye { sources, reason, padding } => {
            let mut b = Bye::builder();
            if how.reconf {
                b = rc!(b.padding(junk_pad(*padding)).reason("a preliminary reason, to be replaced"));
                if reason.is_empty() {
                    // the only way back to "no reason" is an explicitly empty one
                    b = b.reason("");
                }
            }
            if pad_first {
                b = b.padding(*padding);
            }
            for s in sources {
                b = pr!(b.add_source(*s));
            }
            if how.reconf {
                b = rc!(b.padding(junk_pad(*padding)));
                b = b.padding(*padding);
            }
            if how.owned {
                let mut b = if reason.is_empty() { b.reason_owned("") } else { b.reason_owned(reason.as_str()) };
                if !pad_first {
                    b = pr!(pr!(b).padding(*padding));
                }
                out!(b)
            } else {
                if !reason.is_empty() {
                    b = b.reason(reason.as_str());
                }
                if !pad_first {
                    b = pr!(pr!(b).padding(*padding));
                }
                out!(b)
            }
        }
        Cfg::App { ssrc, subtype, name, data, padding } => {
            if how.reconf {
                static JUNK_DATA: [u8; 12] = [0x3c; 12];
                let b = rc!(App::builder(*ssrc, name.as_str()).padding(junk_pad(*padding)).subtype(!*subtype & 0x1f).data(&JUNK_DATA[..]));
                if pad_first {
                    out!(b.padding(*padding).subtype(*subtype).data(data))
                } else {
                    out!(pr!(pr!(pr!(b).data(data)).subtype(*subtype)).padding(*padding))
                }
            } else if pad_first {
                out!(App::builder(*ssrc, name.as_str()).padding(*padding).subtype(*subtype).data(data))
            } else {
                out!(pr!(pr!(pr!(App::builder(*ssrc, name.as_str())).data(data)).subtype(*subtype)).padding(*padding))
            }
        }
        Cfg::Fb { kind, sender, media, fci, padding } => {
            let idx = *next;
            *next += 1;
            // the two SSRC setters are independent: which comes first is picked by the contents
            macro_rules! sm {
                ($b:expr) => {{
                    let b = $b;
                    if (*sender ^ *media ^ (*padding as u32 >> 2)) & 1 == 0 {
                        b.sender_ssrc(*sender).media_ssrc(*media)
                    } else {
                        b.media_ssrc(*media).sender_ssrc(*sender)
                    }
                }};
            }
            match (kind, how.owned) {
                (FbKind::Transport, false) if how.reconf => out!(pr!(pr!(rc!(TransportFeedback::builder(fcis[idx].as_dyn())
                    .sender_ssrc(!*sender)
                    .media_ssrc(!*media)
                    .padding(junk_pad(*padding)))
                .sender_ssrc(*sender)
                .media_ssrc(*media))
                .padding(*padding))),
                (FbKind::Payload, false) if how.reconf => out!(pr!(pr!(rc!(PayloadFeedback::builder(fcis[idx].as_dyn())
                    .padding(junk_pad(*padding))
                    .media_ssrc(!*media)
                    .sender_ssrc(!*sender))
                .media_ssrc(*media)
                .sender_ssrc(*sender))
                .padding(*padding))),
                (FbKind::Transport, false) => out!(pr!(pr!(sm!(TransportFeedback::builder(fcis[idx].as_dyn()))).padding(*padding))),
                (FbKind::Payload, false) => out!(pr!(pr!(sm!(PayloadFeedback::builder(fcis[idx].as_dyn()))).padding(*padding))),
                (FbKind::Transport, true) => {
                    let b = match fci {
                        Fci::Nack(l) => TransportFeedback::builder_owned(mk_nack(l)),
                        Fci::Pli => TransportFeedback::builder_owned(Pli::builder()),
                        Fci::Sli(l) => TransportFeedback::builder_owned(mk_sli(l)),
                        Fci::Rpsi { pt, bits, overrun } => {
                            TransportFeedback::builder_owned(mk_rpsi_owned(*pt, bits, *overrun))
                        }
                        Fci::Fir(l) => TransportFeedback::builder_owned(mk_fir(l)),
                    };
                    let b = if how.reconf { rc!(b.sender_ssrc(!*sender).media_ssrc(!*media).padding(junk_pad(*padding))) } else { b };
                    out!(pr!(pr!(sm!(b)).padding(*padding)))
                }
                (FbKind::Payload, true) => {
                    let b = match fci {
                        Fci::Nack(l) => PayloadFeedback::builder_owned(mk_nack(l)),
                        Fci::Pli => PayloadFeedback::builder_owned(Pli::builder()),
                        Fci::Sli(l) => PayloadFeedback::builder_owned(mk_sli(l)),
                        Fci::Rpsi { pt, bits, overrun } => {
                            PayloadFeedback::builder_owned(mk_rpsi_owned(*pt, bits, *overrun))
                        }
                        Fci::Fir(l) => PayloadFeedback::builder_owned(mk_fir(l)),
                    };
                    let b = if how.reconf { rc!(b.padding(junk_pad(*padding)).media_ssrc(!*media).sender_ssrc(!*sender)) } else { b };
                    out!(pr!(pr!(sm!(b)).padding(*padding)))
                }
            }
        }
        Cfg::Unknown { pt, count, data, padding } => {
            if how.reconf {
                let b = rc!(Unknown::builder(*pt, data).padding(junk_pad(*padding)).count(!*count & 0x1f));
                if pad_first {
                    out!(b.padding(*padding).count(*count))
                } else {
                    out!(pr!(pr!(pr!(b).count(*count)).padding(*padding)))
                }
            } else if pad_first {
                out!(Unknown::builder(*pt, data).padding(*padding).count(*count))
            } else {
                out!(pr!(pr!(pr!(Unknown::builder(*pt, data)).count(*count)).padding(*padding)))
            }
        }
        Cfg::Custom { pt, min, count, body, padding } => {
            // (pt,min) outside the family never leaves the generators; fall back to <255,4>
            let mut vv = Some(v);
            let r = crate::with_custom!(*pt, *min, C, B, {
                let b: B<'a> = B { count: *count, body: &body[..], padding: *padding, report_some_zero: how.owned };
                hook!(b);
                vv.take().unwrap().visit(b)
            });
            match r {
                Some(o) => o,
                None => vv.take().unwrap().visit(crate::custom::CustomBuilder::<255, 4> {
                    count: *count,
                    body: &body[..],
                    padding: *padding,
                    report_some_zero: how.owned,
                }),
            }
        }
        Cfg::Compound(members) => {
            let mut cb = Compound::builder();
            concrete_depth_add(1);
            for m in members {
                // members keep all route flags (a compound itself is never wrapped, only its leaves are)
                let h = how;
                cb = rc!(pr!(construct(m, h, fcis, next, AddTo(cb))));
            }
            concrete_depth_add(-1);
            hook!(cb);
            v.visit(cb)
        }
    }
}

thread_local! {
    static CONCRETE_REQ: RefCell<Option<Vec<u8>>> = const { RefCell::new(None) };
    #[allow(clippy::type_complexity)]
    static CONCRETE_RES: RefCell<Option<(Result<usize, RtcpWriteError>, Result<usize, RtcpWriteError>, Vec<u8>)>> = const { RefCell::new(None) };
    static CONCRETE_DEPTH: std::cell::Cell<i32> = const { std::cell::Cell::new(0) };
}
fn concrete_depth() -> i32 {
    CONCRETE_DEPTH.with(|c| c.get())
}
fn concrete_depth_add(d: i32) {
    CONCRETE_DEPTH.with(|c| c.set(c.get() + d));
}
fn take_concrete_request() -> Option<Vec<u8>> {
    CONCRETE_REQ.with(|c| c.borrow_mut().take())
}
fn put_concrete_result(size: Result<usize, RtcpWriteError>, wrote: Result<usize, RtcpWriteError>, buf: Vec<u8>) {
    CONCRETE_RES.with(|c| *c.borrow_mut() = Some((size, wrote, buf)));
}

struct Discard;
impl<'a> Visit<'a> for Discard {
    type Out = ();
    fn visit<W: RtcpPacketWriter + 'a>(self, _w: W) {}
}

/// `calculate_size()` and `write_into(buf)` called with method syntax on the *concrete* builder type of the
/// top-level configuration (see the `hook!` macro in `construct`); `buf` is handed over pre-filled.
/// Returns (size result, write result, buffer afterwards); None when the builder could not be constructed.
pub fn concrete_outcome(cfg: &Cfg, how: How, buf: Vec<u8>) -> Option<(WOut, WOut, Vec<u8>)> {
    let mut fcis = vec![];
    set_probing(how.probe);
    set_reconf(how.reconf);
    let made = call(|| make_fcis(cfg, &mut fcis));
    if made.is_err() {
        set_probing(false);
        set_reconf(false);
        return None;
    }
    let mut next = 0;
    let h = how;
    CONCRETE_DEPTH.with(|c| c.set(0));
    CONCRETE_REQ.with(|c| *c.borrow_mut() = Some(buf));
    CONCRETE_RES.with(|c| *c.borrow_mut() = None);
    let r = call(|| construct(cfg, h, &fcis, &mut next, Discard));
    set_probing(false);
    set_reconf(false);
    CONCRETE_DEPTH.with(|c| c.set(0));
    let leftover = take_concrete_request();
    let res = CONCRETE_RES.with(|c| c.borrow_mut().take());
    match (r, res) {
        (Ok(()), Some((size, wrote, buf))) => {
            let conv = |x: Result<usize, RtcpWriteError>| match x {
                Ok(n) => WOut::Ok(n),
                Err(e) => WOut::Err(e),
            };
            Some((conv(size), conv(wrote), buf))
        }
        (Err(p), _) => {
            // the unwind happened in a setter, an observer, or in the concrete calls themselves
            let _ = leftover;
            Some((WOut::Panic(p.clone()), WOut::Panic(p), vec![]))
        }
        _ => None,
    }
}

/// Build the real writer for `cfg` and run `f` on it.
pub fn with_writer<R>(cfg: &Cfg, how: How, f: impl FnOnce(&DynW) -> R) -> R {
    let mut fcis = vec![];
    set_probing(how.probe);
    set_reconf(how.reconf);
    // (the FCI builders are made up front so that `builder(&fci)` can borrow them; their setter and
    // observer calls are calls into the crate as well)
    if let Err(p) = call(|| make_fcis(cfg, &mut fcis)) {
        set_probing(false);
        set_reconf(false);
        return f(&DynW(&ConstructionPanicked(p)));
    }
    let mut next = 0;
    // (a compound itself is never wrapped; `wrap` reaches its members, see the Compound arm of `construct`)
    let h = how;
    // the setter (and probe) calls are calls into the crate too: observed, so that a panic in one
    // is attributed to the crate and surfaces as a panicking writer
    let built = call(|| construct(cfg, h, &fcis, &mut next, BoxIt));
    set_probing(false);
    set_reconf(false);
    let r = match built {
        Ok(w) => {
            let r = f(&DynW(&*w));
            drop(w);
            r
        }
        Err(p) => f(&DynW(&ConstructionPanicked(p))),
    };
    r
}

/// Stand-in writer for a builder whose construction (a setter or an observer call between
/// setters) unwound: every operation unwinds again, naming the original site.
#[derive(Debug)]
struct ConstructionPanicked(Panicked);
impl RtcpPacketWriter for ConstructionPanicked {
    fn calculate_size(&self) -> Result<usize, RtcpWriteError> {
        panic!("builder construction panicked at {}: {}", short_site(&self.0.site), self.0.msg)
    }
    fn write_into_unchecked(&self, _buf: &mut [u8]) -> usize {
        panic!("builder construction panicked at {}: {}", short_site(&self.0.site), self.0.msg)
    }
    fn get_padding(&self) -> Option<u8> {
        None
    }
}

#[derive(Debug, PartialEq, Eq)]
pub enum WOut {
    /// only produced by `build_bytes`: write_into returned a size other than calculate_size
    WrongSize { announced: usize, written: usize },
    Ok(usize),
    Err(RtcpWriteError),
    Panic(Panicked),
}

impl WOut {
    pub fn class(&self) -> String {
        match self {
            WOut::Ok(_) => "ok".into(),
            WOut::WrongSize { .. } => "wrong-size".into(),
            WOut::Err(RtcpWriteError::OutputTooSmall(_)) => "err:OutputTooSmall".into(),
            WOut::Err(e) => format!("err:{}", variant_name(&format!("{e:?}"))),
            WOut::Panic(p) => format!("panic@{}", site_file(&p.site)),
        }
    }
    pub fn render(&self) -> String {
        match self {
            WOut::Ok(n) => format!("Ok({n})"),
            WOut::WrongSize { announced, written } => format!("Ok({written}) although calculate_size() == Ok({announced})"),
            WOut::Err(e) => format!("Err({e:?})"),
            WOut::Panic(p) => format!("panic at {}: {}", short_site(&p.site), p.msg),
        }
    }
}

pub fn variant_name(dbg: &str) -> &str {
    let end = dbg.find(|c: char| !(c.is_alphanumeric() || c == '_')).unwrap_or(dbg.len());
    &dbg[..end]
}

pub fn calc(w: &DynW) -> WOut {
    match call(|| w.calculate_size()) {
        Ok(Ok(n)) => WOut::Ok(n),
        Ok(Err(e)) => WOut::Err(e),
        Err(p) => WOut::Panic(p),
    }
}

pub fn write(w: &DynW, buf: &mut [u8]) -> WOut {
    match call(|| w.write_into(buf)) {
        Ok(Ok(n)) => WOut::Ok(n),
        Ok(Err(e)) => WOut::Err(e),
        Err(p) => WOut::Panic(p),
    }
}

/// A buffer that looks like a reused send buffer: every byte non-zero and position dependent,
/// so that a byte the writer forgets is visible to the parser / comparison that follows.
pub fn dirty(n: usize) -> Vec<u8> {
    dirty_k(n, 0)
}

/// Three kinds of previous contents (a writer that ORs into, or keeps some bits of, what was there shows with one
/// and not with another): position-dependent with bits 0 and 7 set; all ones; position-dependent with bits 1..=6
/// of the first pattern inverted (so that between them every bit of every byte is seen set and clear... except that
/// all three leave at least one bit set in every byte: a forgotten byte never looks like a convenient zero).
pub fn dirty_k(n: usize, k: usize) -> Vec<u8> {
    match k % 3 {
        0 => (0..n).map(|i| (i as u8).wrapping_mul(37) | 0x81).collect(),
        1 => vec![0xff; n],
        _ => (0..n).map(|i| ((i as u8).wrapping_mul(37) ^ 0x7e) | 0x24).collect(),
    }
}

/// Build `cfg` and write it into an exact-size (dirty) buffer.
pub fn build_bytes(cfg: &Cfg, how: How) -> Result<Vec<u8>, WOut> {
    build_bytes_in(cfg, how, true)
}

/// The same into a zeroed buffer: for comparisons between two images of the same member (alone / inside a
/// compound, one history / another), where a byte the writer leaves unwritten must not look like a difference.
pub fn build_bytes_zeroed(cfg: &Cfg, how: How) -> Result<Vec<u8>, WOut> {
    build_bytes_in(cfg, how, false)
}

fn build_bytes_in(cfg: &Cfg, how: How, dirty_buffer: bool) -> Result<Vec<u8>, WOut> {
    with_writer(cfg, how, |w| match calc(w) {
        WOut::Ok(n) => {
            if n > (1 << 26) {
                return Err(WOut::Ok(n));
            }
            // which kind of previous contents: a function of the case (size and route), so that a replay sees the same
            let k = n / 4 + how.owned as usize + 2 * how.wrap as usize + how.probe as usize + how.reconf as usize;
            let mut buf = if dirty_buffer { dirty_k(n, k) } else { vec![0u8; n] };
            match write(w, &mut buf) {
                WOut::Ok(m) if m == n => Ok(buf),
                WOut::Ok(m) => Err(WOut::WrongSize { announced: n, written: m }),
                other => Err(other),
            }
        }
        other => Err(other),
    })
}

/// Every input handed to a parser lives in its own heap allocation that *ends* exactly where the
/// input ends (no slack behind it), so that ASan / Miri / memcheck see any read past the end. The
/// input starts 0, 1, 2 or 3 bytes into the allocation (rotating per call), so that inputs are seen
/// at every address residue mod 4, as packets sliced out of a receive buffer are: a parser must not
/// depend on the alignment of its input.
pub struct Exact {
    buf: Box<[u8]>,
    off: usize,
}
impl std::ops::Deref for Exact {
    type Target = [u8];
    fn deref(&self) -> &[u8] {
        &self.buf[self.off..]
    }
}
thread_local! {
    static EXACT_ROT: std::cell::Cell<usize> = const { std::cell::Cell::new(0) };
}
pub fn exact(b: &[u8]) -> Exact {
    let k = EXACT_ROT.with(|c| {
        let v = c.get();
        c.set(v.wrapping_add(1));
        v % 4
    });
    let mut v = Vec::with_capacity(b.len() + k);
    v.extend(std::iter::repeat(0xa5u8).take(k));
    v.extend_from_slice(b);
    Exact { buf: v.into_boxed_slice(), off: k }
}
