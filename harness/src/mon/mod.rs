//! One monitor (oracle) per property; see DESIGN.md §5.

pub mod c01;
pub mod compose;
pub mod fci_sdes;
pub mod parsers;
pub mod roundtrip;
pub mod writers;

use crate::cfg::Cfg;
use crate::ctx::Ctx;
use crate::drive::How;
use crate::json::{unhex, J};

pub struct Entry {
    pub id: &'static str,
    pub run: fn(&mut Ctx, usize, usize),
    pub floor: fn(&Ctx) -> Vec<(String, bool)>,
    /// how cases are generated and what makes one non-trivial / distinct
    pub rule: &'static str,
}

pub fn registry() -> Vec<Entry> {
    vec![
        Entry { id: "C01", run: c01::run, floor: c01::floor, rule: "byte strings from: exhaustive header space (first byte x 11 packet types x length field 0..=12 x actual length 0..=52 x 4 body fills, last byte swept when P is set), exhaustive SDES bodies over {0,1,2,8}, FCI lengths 0..=40 x 3 fills behind every feedback header, all RPSI PB values, inputs > 64 KiB, seeded mutations of model-encoded packets/compounds and random bodies under valid headers. Every string goes to all 16 parse entry points and the full accessor/conversion/iterator battery (twice, two orders). Non-trivial = at least one entry point accepted the string; distinct = FNV-1a fingerprint of the bytes (bitmap lower bound)." },
        Entry { id: "C02", run: roundtrip::run_c02, floor: roundtrip::floor_c02, rule: "SR/RR configurations: sweep blocks 0..=31 x all 64 legal paddings with boundary field values, plus seeded random over full field ranges; built through borrowed/owned/PacketBuilder-wrapped routes, written into an exact-size buffer, parsed with the matching parser, compared field by field with the configuration. Non-trivial = builder accepted and parser accepted; distinct = hash of the configuration." },
        Entry { id: "C03", run: roundtrip::run_c03, floor: roundtrip::floor_c03, rule: "SDES configurations: 1-3 chunks with item lengths hitting every residue mod 4, final value length 0..=8, second-chunk SSRC byte patterns with zeros in each position, paddings {0,4,8,252}; 0/31 chunks; value lengths 0..=255; every PRIV split prefix+value<=254 (strided in quick); NUL and multi-byte values; seeded random. Non-trivial = accepted by builder and parser; distinct = hash of the configuration." },
        Entry { id: "C04", run: roundtrip::run_c04, floor: roundtrip::floor_c04, rule: "BYE: sources x reason length 0..=255 x paddings (exhaustive 32x256x64 in thorough, strided in quick); APP: 10 names (0-4 chars incl. NULs) x subtypes x payload sizes incl. 200 KiB x paddings; seeded random. Non-trivial = accepted by builder and parser; distinct = hash of the configuration." },
        Entry { id: "C05", run: roundtrip::run_c05, floor: roundtrip::floor_c05, rule: "feedback x FCI configurations: NACK runs 1..=40 at 6 bases, gaps 15..=34, number-space ends, dense random sets up to 5000, the full set (thorough); RPSI every length 0..=64 x ignored bits 0..=8 x paddings; FIR maps / SLI lists of 1..=200 entries; PLI; seeded random; borrowed and owned FCI. Empty FIR/SLI lists are outside the domain (documented non-demand). Non-trivial = accepted by builder and parser; distinct = hash of the configuration." },
        Entry { id: "C06", run: writers::run_c06, floor: writers::floor_c06, rule: "every builder kind (31 base configurations incl. every feedback x FCI pairing, unknown, third-party, compounds) x all legal paddings; variable-length tails (reason/value/RPSI/NACK/FIR/SLI sizes) x paddings; seeded valid-biased and limit-biased configurations incl. nested compounds; each crossed with every buffer length 0..=n+9 (n<=320) or the boundary set. SDES chunk and item builders separately. Non-trivial = every evaluated configuration (calculate_size Ok or Err); distinct = hash of the configuration." },
        Entry { id: "C07", run: writers::run_c07, floor: writers::floor_c07, rule: "same configuration workload as C06; each accepted, representable configuration's bytes are compared with the independent RFC encoder's image (FIR entries as a multiset; NACK by decoded set, minimal word count and strictly increasing PIDs; RPSI with a fully ignored last byte in either of two images). Non-trivial = builder accepted; distinct = hash of the configuration." },
        Entry { id: "C08", run: parsers::run_c08, floor: parsers::floor_c08, rule: "hostile byte strings: exhaustive header space, > 64 KiB inputs, seeded mutations / random bodies / valid packets; for each of the 7 typed parsers, Unknown and Packet, acceptance implies the framing predicate computed from the bytes and header accessors equal to the header bytes. Non-trivial = some parser accepted; distinct = fingerprint of the bytes." },
        Entry { id: "C09", run: parsers::run_c09, floor: parsers::floor_c09, rule: "(1) hostile byte strings as in C08: for each fixed-layout parser that accepts, every accessor is compared with an independent big-endian read at the RFC offset and every returned slice with its expected pointer range; (2) model-encoded packets over full field ranges (seeded) must be accepted and read back equal. Non-trivial = accepted; distinct = fingerprint of bytes / hash of configuration." },
        Entry { id: "C10", run: fci_sdes::run_c10, floor: fci_sdes::floor_c10, rule: "byte strings framed as SDES: exhaustive bodies of 0..=2 (quick) / 0..=3 (thorough) words over {0,1,2,8}, and of 1..=2 words over {0,1,4,6}, x 3 SSRC prefixes x padding trailer 0/4/8 bytes x SC 0..=3; model-encoded SDES packets and their mutations; random bodies. Each is classified MustAccept(tokens)/MustReject/Either by an independent tokeniser and the parser's verdict and yield are compared. Non-trivial = classified MustAccept, MustReject, or Either-and-accepted; distinct = fingerprint of the bytes." },
        Entry { id: "C11", run: parsers::run_c11, floor: parsers::floor_c11, rule: "byte strings: generated tilings of 1..=5 tiles (6 tile lengths x 9 packet types) with a failing tile at any position and perturbed total length; header space; mutated model compounds; 20 000-tile compound. Compound::parse is compared with the model tiling and the iteration (4 call histories) with Packet::parse per tile. Non-trivial = accepted compound; distinct = fingerprint of the bytes." },
        Entry { id: "C12", run: parsers::run_c12, floor: parsers::floor_c12, rule: "byte strings of >= 4 bytes (header space, hostile, valid): generic parser vs the typed parser selected by the type byte; for accepted packets all 7 conversion targets through try_as / TryFrom<&Packet> / TryFrom<Packet> / Unknown routes. Non-trivial = generic parser accepted; distinct = fingerprint of the bytes." },
        Entry { id: "C13", run: fci_sdes::run_c13, floor: fci_sdes::floor_c13, rule: "well-formed unpadded packets from the independent encoder (structural sweeps of every type and FCI kind + seeded random) x paddings (all 63 for the sweeps; {4,8,252,random} or all 63 for random bases): padded packet accepted, padding() reports the amount, all content accessors equal to the unpadded packet's. Non-trivial = both accepted; distinct = fingerprint of (base bytes, padding)." },
        Entry { id: "C14", run: compose::run_c14, floor: compose::floor_c14, rule: "member lists: systematic lists of length <= 3 over 11 member kinds (incl. nested and empty compounds, third-party writers) with padding / invalidity at every position; seeded random lists of 0..=8 members, nesting depth <= 2, valid-biased and limit-biased. Non-trivial = every evaluated list; distinct = hash of the list." },
        Entry { id: "C15", run: fci_sdes::run_c15, floor: fci_sdes::floor_c15, rule: "feedback packets built by the model around arbitrary FCI: gating matrix 2 kinds x 32 formats x 5 FCI types; all 65 536 NACK masks x 96 PIDs; every SLI field value; all RPSI PB x lengths 4..=16; seeded multi-word lists; direct FciParser::parse on strings of length 0..=41; (thorough, release) all 2^32 single NACK/SLI words. Non-trivial = some FCI type decoded; distinct = fingerprint of the packet." },
        Entry { id: "C16", run: writers::run_c16, floor: writers::floor_c16, rule: "configurations: every limit at L-1/L/L+1, every PRIV split around 254, names of 0..=6 bytes incl. multi-byte, payload lengths 0..=9, RPSI limits, padding on non-last compound members at every position (also nested), sizes 262140/262144/262148 for every builder that can reach them, all 256 paddings on every builder kind, seeded limit-biased configurations. calculate_size must fail iff the representability predicate reports a violated rule, with an error naming one of them. Non-trivial = every evaluated configuration; distinct = hash of the configuration." },
        Entry { id: "C17", run: writers::run_c17, floor: writers::floor_c17, rule: "same configuration workload as C06 x buffer lengths {n, n+1, n+7, n+64, n-1, n/2, 0} x three prefills (0x00, 0xff, position-dependent): equal results, equal claimed bytes, untouched tail, failed writes leave the buffer unchanged. In the Miri / memcheck tiers the buffer is truly uninitialised heap memory and every claimed byte is read. Non-trivial = every evaluated configuration; distinct = hash of the configuration." },
        Entry { id: "C18", run: parsers::run_c18, floor: parsers::floor_c18, rule: "hostile byte strings as in C08; every Err from the 7 typed parsers, Unknown, Packet, ReportBlock, Compound (and the FCI parsers' Truncated/TooLarge) is checked against facts computed from the bytes. Non-trivial = at least one parser rejected; distinct = fingerprint of the bytes." },
        Entry { id: "C19", run: compose::run_c19, floor: compose::floor_c19, rule: "(i) helper parameters: 30 third-party (type, minimum) pairs x padding 0..=255 x buffers of every multiple of 4 up to 64 (and 256) x 3 prefills; (ii)(iii) unknown-builder and third-party configurations alone and inside mixed compounds (seeded + all paddings per pair); (iv) check_packet on a header space restricted to the family's types plus seeded hostile strings. Non-trivial = every helper tuple / accepted configuration / well-framed string; distinct = hash." },
        Entry { id: "C20", run: compose::run_c20, floor: compose::floor_c20, rule: "final configurations from the C06 workload, each built through 7 construction histories (setter permutations, junk-then-real values, owned/borrowed variants placed before/after other setters, re-added NACK numbers / FIR SSRCs, PacketBuilder wrapper, one-member compound): equal calculate_size and bytes (FIR entries sorted). Non-trivial = every evaluated configuration; distinct = hash of the configuration." },
    ]
}

/// Re-execute one recorded case through the monitor that produced it.
pub fn replay_case(ctx: &mut Ctx, case: &J) -> Result<(), String> {
    let monitor = case.gs("monitor")?.to_string();
    match case.gs("kind")? {
        "bytes" => {
            let b = unhex(case.gs("hex")?)?;
            match monitor.as_str() {
                "c01" => c01::check(ctx, &b),
                "c08" => parsers::check_c08(ctx, &b),
                "c09-bytes" => parsers::check_c09_bytes(ctx, &b),
                "c10" => fci_sdes::check_c10(ctx, &b),
                "c11" => parsers::check_c11(ctx, &b),
                "c12" => parsers::check_c12(ctx, &b),
                "c13" => fci_sdes::check_c13(ctx, &b, case.gi("pad")? as u8),
                "c15" => {
                    if b.len() < 12 {
                        return Err("short c15 case".into());
                    }
                    {
                        let pad = if b[0] & 0x20 != 0 { (*b.last().unwrap() as usize).min(b.len() - 12) } else { 0 };
                        fci_sdes::check_c15_padded(ctx, b[1] == 205, b[0] & 0x1f, &b[12..b.len() - pad], pad as u8)
                    }
                }
                "c15-direct" => fci_sdes::check_c15_direct(ctx, &b),
                "c18" => parsers::check_c18(ctx, &b),
                "c19-bytes" => compose::check_c19_bytes(ctx, &b, case.gi("pt")? as u8, case.gi("min")? as usize),
                o => return Err(format!("unknown bytes monitor {o}")),
            }
        }
        "cfg" => {
            let cfg = Cfg::from_json(case.get("cfg").ok_or("missing cfg")?)?;
            let how = How {
                owned: case.get("owned").and_then(|b| b.boolean()).unwrap_or(false),
                wrap: case.get("wrap").and_then(|b| b.boolean()).unwrap_or(false),
                probe: case.get("probe").and_then(|b| b.boolean()).unwrap_or(false),
                reconf: case.get("reconf").and_then(|b| b.boolean()).unwrap_or(false),
            };
            match monitor.as_str() {
                "roundtrip" => roundtrip::check(ctx, &cfg, how),
                "c06" => writers::check_c06(ctx, &cfg, how),
                "c07" => writers::check_c07(ctx, &cfg, how),
                "c09-cfg" => parsers::check_c09_cfg(ctx, &cfg),
                "c14" => compose::check_c14(ctx, &cfg, how),
                "c16" => writers::check_c16(ctx, &cfg, how),
                "c17" => {
                    writers::check_c17(ctx, &cfg, how);
                    writers::check_c17_subs(ctx, &cfg, how)
                }
                "c19-cfg" => compose::check_c19_cfg(ctx, &cfg, how),
                "c20" => compose::check_c20(ctx, &cfg),
                o => return Err(format!("unknown cfg monitor {o}")),
            }
        }
        "helper" => compose::check_c19_helpers(
            ctx,
            case.gi("pt")? as u8,
            case.gi("min")? as usize,
            case.gi("padding")? as u8,
            case.gi("count")? as u8,
            case.gi("buf_len")? as usize,
        ),
        "c07-odd" => writers::check_c07_odd(ctx, case.gi("max_count")? as u8, case.gi("count")? as u8, case.gi("padding")? as u8, case.gi("body")? as usize),
        o => return Err(format!("unknown case kind {o}")),
    }
    Ok(())
}
