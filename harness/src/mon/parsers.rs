//! Parse-side monitors over byte strings: C08 (accepted ⇒ exactly framed),
//! C09 (fields are the bytes on the wire, zero-copy), C11 (compound tiling and
//! iteration), C12 (generic dispatch and conversions), C18 (truthful errors).

use crate::ctx::{bytes_case, fnv, Ctx};
use crate::drive::{call, exact, short_site, Panicked};
use crate::gen::bytes as gb;
use crate::gen::cfgs::{self, Mix};
use crate::json::{hex, J};
use crate::model::{dec, enc};
use crate::obs::{self, Ty, ALL_TY};
use crate::source::{mix, Src};
use rtcp_types::prelude::*;
use rtcp_types::*;

thread_local! {
    /// set by an observation closure as soon as the parser under test has *returned*; a panic
    /// before that point is the parser failing to return (C01's business), a panic after it is an
    /// accessor of an accepted value failing
    static PARSER_RETURNED: std::cell::Cell<bool> = const { std::cell::Cell::new(false) };
}
pub fn parser_returned() {
    PARSER_RETURNED.with(|c| c.set(true));
}
pub fn reset_parser_returned() {
    PARSER_RETURNED.with(|c| c.set(false));
}
pub fn did_parser_return() -> bool {
    PARSER_RETURNED.with(|c| c.get())
}

/// A failure that belongs to another property was observed: counted in the evidence, not raised.
pub fn other_property(ctx: &mut Ctx, monitor: &str, what: &str) {
    ctx.class_dyn(format!("{monitor}:other-property:{what}"));
}

fn panic_violation(ctx: &mut Ctx, monitor: &'static str, subject: &str, b: &[u8], p: &Panicked) {
    ctx.violate(
        "no-panic",
        subject,
        &crate::drive::panic_feature(&p),
        || bytes_case(monitor, b),
        "parser and accessors return normally",
        format!("panic at {}: {}", short_site(&p.site), p.msg),
    );
}

/// Shared hostile-bytes workload: header space + mutated valid packets + random under header.
pub fn bytes_workload(ctx: &mut Ctx, shard: usize, nshards: usize, salt: u64, n_quick: usize, n_thorough: usize, f: &mut dyn FnMut(&mut Ctx, &[u8])) {
    if ctx.scale >= 0.5 {
        let stride = if ctx.thorough { 1 } else { 4 };
        let n = gb::header_space(shard, nshards, stride, &mut |b| f(ctx, b));
        ctx.class_add(if stride == 1 { "exhaustive:header-space(all first bytes x 11 types x length field 0..=12 x actual length 0..=52 x 4 fills)" } else { "exhaustive:header-space(version-2 first bytes in full, others strided by 4)" }, n);
        if shard == 0 {
            gb::large_inputs(&mut |b| f(ctx, b));
        }
        let n = gb::relational_inputs(shard, nshards, &mut |b| f(ctx, b));
        ctx.class_add("relational-inputs(>65535 tiles; inputs beyond 65536 words x 7 length fields x 11 types)", n);
        let n = gb::sdes_priv_pairs(shard, nshards, &mut |b| f(ctx, b));
        ctx.class_add("exhaustive:sdes-priv(all 65536 (length, prefix length) pairs)", n);
    } else {
        // interpreter tiers: a direct sample instead of the enumeration
        let mut s = Src::prng(mix(ctx.seed, salt.wrapping_mul(0x7177) + shard as u64));
        let n = ctx.n(5_000).min(40);
        gb::header_space_sample(&mut s, n, &mut |b| f(ctx, b));
        for i in 0..n {
            let v = if i % 2 == 0 { gb::valid_packet(&mut s) } else { gb::hostile(&mut s) };
            if v.len() <= 512 {
                f(ctx, &v);
            }
        }
        return;
    }
    let n = ctx.n(if ctx.thorough { n_thorough } else { n_quick });
    let mut s = Src::prng(mix(ctx.seed, salt.wrapping_mul(0x10001) + shard as u64));
    for i in 0..n {
        let v = if i % 4 == 0 { gb::valid_packet(&mut s) } else { gb::hostile(&mut s) };
        f(ctx, &v);
    }
}

// ================================================================== C08

#[derive(Debug)]
struct Framing {
    hdr: obs::Hdr,
    /// the same accessors called with method syntax on the *concrete* type (where an inherent method of the
    /// same name, if one exists, shadows the trait's)
    concrete: obs::Hdr,
    padding: Option<Option<u8>>,
}

fn framing_of(ty: Option<Ty>, generic: bool, b: &[u8]) -> Result<Result<(Framing, u8), RtcpParseError>, Panicked> {
    reset_parser_returned();
    call(|| {
        macro_rules! fr {
            ($T:ty) => {{
                let p = <$T>::parse(b)?;
                parser_returned();
                let concrete = obs::Hdr { version: p.version(), type_: p.type_(), subtype: p.subtype(), count: p.count(), length: p.length() };
                Ok((Framing { hdr: obs::hdr(&p), concrete, padding: Some(p.padding()) }, <$T>::PACKET_TYPE))
            }};
        }
        if generic {
            let p = Packet::parse(b)?;
            parser_returned();
            let pt = match &p {
                Packet::App(_) => 204,
                Packet::Bye(_) => 203,
                Packet::Rr(_) => 201,
                Packet::Sdes(_) => 202,
                Packet::Sr(_) => 200,
                Packet::TransportFeedback(_) => 205,
                Packet::PayloadFeedback(_) => 206,
                Packet::Unknown(_) => 0,
            };
            let concrete = obs::Hdr { version: p.version(), type_: p.type_(), subtype: p.subtype(), count: p.count(), length: p.length() };
            // and the typed value inside the variant, again with method syntax on its own type
            macro_rules! inner {
                ($x:expr) => {
                    obs::Hdr { version: $x.version(), type_: $x.type_(), subtype: $x.subtype(), count: $x.count(), length: $x.length() }
                };
            }
            let inner = match &p {
                Packet::App(x) => inner!(x),
                Packet::Bye(x) => inner!(x),
                Packet::Rr(x) => inner!(x),
                Packet::Sdes(x) => inner!(x),
                Packet::Sr(x) => inner!(x),
                Packet::TransportFeedback(x) => inner!(x),
                Packet::PayloadFeedback(x) => inner!(x),
                Packet::Unknown(x) => inner!(x),
            };
            let concrete = if inner != concrete { inner } else { concrete };
            return Ok((Framing { hdr: obs::hdr(&p), concrete, padding: obs::packet_padding(&p) }, pt));
        }
        match ty {
            Some(Ty::Sr) => fr!(SenderReport),
            Some(Ty::Rr) => fr!(ReceiverReport),
            Some(Ty::Sdes) => fr!(Sdes),
            Some(Ty::Bye) => fr!(Bye),
            Some(Ty::App) => fr!(App),
            Some(Ty::Tfb) => fr!(TransportFeedback),
            Some(Ty::Pfb) => fr!(PayloadFeedback),
            None => {
                let p = Unknown::parse(b)?;
                parser_returned();
                let concrete = obs::Hdr { version: p.version(), type_: p.type_(), subtype: p.subtype(), count: p.count(), length: p.length() };
                Ok((Framing { hdr: obs::hdr(&p), concrete, padding: None }, 0))
            }
        }
    })
}

pub fn check_c08(ctx: &mut Ctx, input: &[u8]) {
    let data = exact(input);
    let b: &[u8] = &data;
    let _case = crate::watchdog::case_bytes("c08", b);
    ctx.eval();
    // what the input stream contains (floor): reasons for which the predicate must fail
    if b.len() >= 4 {
        if dec::version(b) != 2 {
            ctx.class("c08:in:version!=2");
        } else {
            let d = dec::declared_len(b);
            if d == b.len() + 4 {
                ctx.class("c08:in:short-by-a-word");
            }
            if d + 4 == b.len() {
                ctx.class("c08:in:long-by-a-word");
            }
            if d == b.len() {
                if dec::p_bit(b) && b[b.len() - 1] == 0 {
                    ctx.class("c08:in:P-with-zero-count");
                }
                if dec::count_implied_min(b[1], dec::count(b)) > b.len() && matches!(b[1], 200 | 201 | 203) {
                    ctx.class("c08:in:count-too-large");
                }
            }
        }
    }
    let mut accepted = false;
    let subjects: [(Option<Ty>, bool, &'static str); 9] = [
        (Some(Ty::Sr), false, "SenderReport"),
        (Some(Ty::Rr), false, "ReceiverReport"),
        (Some(Ty::Sdes), false, "Sdes"),
        (Some(Ty::Bye), false, "Bye"),
        (Some(Ty::App), false, "App"),
        (Some(Ty::Tfb), false, "TransportFeedback"),
        (Some(Ty::Pfb), false, "PayloadFeedback"),
        (None, false, "Unknown"),
        (None, true, "Packet"),
    ];
    for (ty, generic, name) in subjects {
        match framing_of(ty, generic, b) {
            // "whenever a parser accepts ...": a parser that unwinds has accepted nothing (C01's business);
            // a header accessor that unwinds on an accepted value does break "the header accessors then return"
            Err(p) if did_parser_return() => panic_violation(ctx, "c08", name, b, &p),
            Err(_) => other_property(ctx, "c08", "parser-panics(C01)"),
            Ok(Err(_)) => {}
            Ok(Ok((fr, variant_pt))) => {
                accepted = true;
                ctx.class_dyn(format!("c08:accept:{name}"));
                // which framing rules apply
                let (pt_rule, min, padding_rule): (Option<u8>, usize, bool) = if generic {
                    if variant_pt == 0 {
                        (None, 4, false)
                    } else {
                        (Some(variant_pt), dec::min_len_of(variant_pt), true)
                    }
                } else if let Some(t) = ty {
                    (Some(t.pt()), t.min_len(), true)
                } else {
                    (None, 4, false)
                };
                let mut broken: Vec<String> = vec![];
                if b.len() < min {
                    broken.push(format!("length {} below the minimum {min}", b.len()));
                } else {
                    if dec::version(b) != 2 {
                        broken.push(format!("version {}", dec::version(b)));
                    }
                    if let Some(pt) = pt_rule {
                        if b[1] != pt {
                            broken.push(format!("packet type byte {} for a parser of type {pt}", b[1]));
                        }
                        if generic && variant_pt != b[1] {
                            broken.push(format!("generic parser chose the variant of type {variant_pt} for type byte {}", b[1]));
                        }
                    } else if generic && (200..=206).contains(&b[1]) {
                        broken.push(format!("generic parser yields Unknown for the known type {}", b[1]));
                    }
                    if dec::declared_len(b) != b.len() {
                        broken.push(format!("length field says {} bytes, string has {}", dec::declared_len(b), b.len()));
                    }
                    if padding_rule && dec::p_bit(b) && b[b.len() - 1] == 0 {
                        broken.push("padding bit set with a zero final byte".into());
                    }
                    if let Some(pt) = pt_rule {
                        let need = dec::count_implied_min(pt, dec::count(b));
                        if b.len() < need {
                            broken.push(format!("count {} needs {need} bytes, string has {}", dec::count(b), b.len()));
                        }
                    }
                    // header accessors
                    let exp = obs::Hdr { version: b[0] >> 6, type_: b[1], subtype: b[0] & 0x1f, count: b[0] & 0x1f, length: dec::declared_len(b) };
                    if fr.concrete != exp && fr.hdr == exp {
                        broken.push(format!("concrete-type header accessors 0: called with method syntax on the typed value they report {:?}, the bytes say {:?}", fr.concrete, exp));
                    }
                    if fr.hdr != exp {
                        broken.push(format!("header accessors 0: they report {:?}, the bytes say {:?}", fr.hdr, exp));
                    }
                    if let Some(pad) = fr.padding {
                        let want = if dec::p_bit(b) { Some(b[b.len() - 1]) } else { None };
                        if pad != want {
                            broken.push(format!("padding() == {pad:?}, the bytes say {want:?}"));
                        }
                    }
                }
                if !broken.is_empty() {
                    let feature = broken[0].split(|c: char| c.is_ascii_digit()).next().unwrap_or("").trim().to_string();
                    ctx.violate(
                        "accepted-implies-framed",
                        name,
                        &feature,
                        || bytes_case("c08", b),
                        "an accepted string is exactly and consistently framed",
                        format!("{name}::parse accepts {} although: {}", hex(&b[..b.len().min(48)]), broken.join("; ")),
                    );
                }
            }
        }
    }
    if accepted {
        ctx.nontrivial(fnv(b));
        ctx.sample_sparse(200_003, || J::obj().set("len", b.len()).set("hex", hex(&b[..b.len().min(64)])));
    }
}

pub fn run_c08(ctx: &mut Ctx, shard: usize, nshards: usize) {
    bytes_workload(ctx, shard, nshards, 0xc08, 150_000, 3_000_000, &mut |ctx, b| check_c08(ctx, b));
}
pub fn floor_c08(ctx: &Ctx) -> Vec<(String, bool)> {
    let all = ctx.all_classes();
    let mut f = vec![];
    for n in ["SenderReport", "ReceiverReport", "Sdes", "Bye", "App", "TransportFeedback", "PayloadFeedback", "Unknown", "Packet"] {
        let c = format!("c08:accept:{n}");
        f.push((c.clone(), all.contains_key(&c)));
    }
    for c in ["c08:in:version!=2", "c08:in:short-by-a-word", "c08:in:long-by-a-word", "c08:in:P-with-zero-count", "c08:in:count-too-large"] {
        f.push((c.to_string(), all.contains_key(c)));
    }
    f
}

// ================================================================== C18

fn truthful(e: &RtcpParseError, b: &[u8], own_pt: Option<u8>) -> Result<(), String> {
    match e {
        RtcpParseError::UnsupportedVersion(v) => {
            if b.is_empty() || *v != b[0] >> 6 || *v == 2 {
                return Err(format!("UnsupportedVersion({v}) but the input's version is {:?}", b.first().map(|x| x >> 6)));
            }
        }
        RtcpParseError::PacketTypeMismatch { actual, requested } => {
            if b.len() < 2 || *actual != b[1] || actual == requested || Some(*requested) != own_pt {
                return Err(format!(
                    "PacketTypeMismatch{{actual:{actual},requested:{requested}}} but the input's type byte is {:?} and the parser's type is {own_pt:?}",
                    b.get(1)
                ));
            }
        }
        RtcpParseError::Truncated { expected, actual } => {
            if expected <= actual {
                return Err(format!("Truncated{{expected:{expected},actual:{actual}}} does not have expected > actual"));
            }
        }
        RtcpParseError::TooLarge { expected, actual } => {
            if expected >= actual {
                return Err(format!("TooLarge{{expected:{expected},actual:{actual}}} does not have expected < actual"));
            }
        }
        _ => {}
    }
    Ok(())
}

pub fn check_c18(ctx: &mut Ctx, input: &[u8]) {
    let data = exact(input);
    let b: &[u8] = &data;
    let _case = crate::watchdog::case_bytes("c18", b);
    let len = b.len();
    ctx.eval();
    let mut any_err = false;
    // (name, own packet type, minimum, has the specific framing clauses)
    let mut results: Vec<(&'static str, Option<u8>, usize, bool, Result<Option<RtcpParseError>, Panicked>)> = vec![];
    macro_rules! run {
        ($name:literal, $pt:expr, $min:expr, $spec:expr, $e:expr) => {
            results.push(($name, $pt, $min, $spec, call(|| $e.err())));
        };
    }
    run!("SenderReport", Some(200), 28, true, SenderReport::parse(b));
    run!("ReceiverReport", Some(201), 8, true, ReceiverReport::parse(b));
    run!("Sdes", Some(202), 4, true, Sdes::parse(b));
    run!("Bye", Some(203), 4, true, Bye::parse(b));
    run!("App", Some(204), 12, true, App::parse(b));
    run!("TransportFeedback", Some(205), 12, true, TransportFeedback::parse(b));
    run!("PayloadFeedback", Some(206), 12, true, PayloadFeedback::parse(b));
    run!("Unknown", None, 4, true, Unknown::parse(b));
    // the generic parser behaves as the typed parser selected by the type byte
    let (gpt, gmin) = if len >= 4 && (200..=206).contains(&b[1]) { (Some(b[1]), dec::min_len_of(b[1])) } else { (None, 4) };
    run!("Packet", gpt, if len < 4 { 4 } else { gmin }, true, Packet::parse(b));
    run!("ReportBlock", None, 24, false, ReportBlock::parse(b));
    run!("Compound", None, 4, false, Compound::parse(b));
    run!("Fir", None, 0, false, <Fir as FciParser>::parse(b));
    run!("Sli", None, 0, false, <Sli as FciParser>::parse(b));
    run!("Rpsi", None, 0, false, <Rpsi as FciParser>::parse(b));
    run!("Pli", None, 0, false, <Pli as FciParser>::parse(b));

    for (name, own_pt, min, specific, r) in results {
        let e = match r {
            Err(p) => {
                // The property promises a *specific error* for two classes of input (below the minimum;
                // version 2, right type, length field disagreeing with the length): there an unwind is
                // the promised error not being reported. Anywhere else an unwinding parser has simply not
                // rejected anything with an error (C01's business).
                let promised = (min > 0 && len < min)
                    || (specific && len >= min && len >= 4 && dec::version(b) == 2 && own_pt.map(|pt| pt == b[1]).unwrap_or(true) && dec::declared_len(b) != len);
                if promised {
                    panic_violation(ctx, "c18", name, b, &p);
                } else {
                    other_property(ctx, "c18", "parser-panics(C01)");
                }
                continue;
            }
            Ok(None) => continue,
            Ok(Some(e)) => e,
        };
        any_err = true;
        ctx.class_dyn(format!("c18:{name}:{}", crate::drive::variant_name(&format!("{e:?}"))));
        let mut why: Option<(String, String)> = None; // (clause, text)
        if let Err(t) = truthful(&e, b, own_pt) {
            why = Some(("payload-truthful".into(), t));
        }
        if why.is_none() && min > 0 && len < min {
            ctx.class_dyn(format!("c18:{name}:specific:below-minimum"));
            let want = RtcpParseError::Truncated { expected: min, actual: len };
            if e != want {
                why = Some(("below-minimum".into(), format!("input of {len} bytes is below the minimum {min}: expected {want:?}, got {e:?}")));
            }
        } else if why.is_none() && specific && len >= min && len >= 4 && dec::version(b) == 2 && own_pt.map(|pt| pt == b[1]).unwrap_or(true) {
            let h = dec::declared_len(b);
            if h != len {
                ctx.class_dyn(format!("c18:{name}:specific:length-field"));
                let want = if h > len { RtcpParseError::Truncated { expected: h, actual: len } } else { RtcpParseError::TooLarge { expected: h, actual: len } };
                if e != want {
                    why = Some(("length-field".into(), format!("length field says {h}, string has {len}: expected {want:?}, got {e:?}")));
                }
            }
        }
        if let Some((clause, text)) = why {
            ctx.violate(
                &clause,
                name,
                crate::drive::variant_name(&format!("{e:?}")),
                || bytes_case("c18", b),
                "the error describes the input accurately",
                format!("{name}::parse({}) -> {text}", hex(&b[..len.min(40)])),
            );
        }
    }
    // Errors of conversions (a typed parser applied to an already parsed generic / unknown packet) and of
    // compound iteration (the generic parser applied to one tile) are parse errors too: same truthfulness.
    let conv = call(|| {
        let mut out: Vec<(&'static str, &'static str, Option<u8>, RtcpParseError, Option<(usize, usize)>)> = vec![];
        if let Ok(p) = Packet::parse(b) {
            macro_rules! conv {
                ($T:ty, $name:literal) => {{
                    if let Err(e) = p.try_as::<$T>() {
                        out.push(("Packet::try_as", $name, Some(<$T>::PACKET_TYPE), e, None));
                    }
                    if let Err(e) = <$T>::try_from(&p) {
                        out.push(("TryFrom<&Packet>", $name, Some(<$T>::PACKET_TYPE), e, None));
                    }
                    if let Ok(p2) = Packet::parse(b) {
                        if let Err(e) = <$T>::try_from(p2) {
                            out.push(("TryFrom<Packet>", $name, Some(<$T>::PACKET_TYPE), e, None));
                        }
                    }
                }};
            }
            conv!(SenderReport, "SenderReport");
            conv!(ReceiverReport, "ReceiverReport");
            conv!(Sdes, "Sdes");
            conv!(Bye, "Bye");
            conv!(App, "App");
            conv!(TransportFeedback, "TransportFeedback");
            conv!(PayloadFeedback, "PayloadFeedback");
        }
        if let Ok(u) = Unknown::parse(b) {
            macro_rules! uconv {
                ($T:ty, $name:literal) => {{
                    if let Err(e) = u.try_as::<$T>() {
                        out.push(("Unknown::try_as", $name, Some(<$T>::PACKET_TYPE), e, None));
                    }
                    if let Ok(u2) = Unknown::parse(b) {
                        let p2 = Packet::from(u2);
                        if let Err(e) = p2.try_as::<$T>() {
                            out.push(("Packet::from(Unknown).try_as", $name, Some(<$T>::PACKET_TYPE), e, None));
                        }
                        if let Err(e) = <$T>::try_from(p2) {
                            out.push(("TryFrom<Packet::from(Unknown)>", $name, Some(<$T>::PACKET_TYPE), e, None));
                        }
                    }
                }};
            }
            uconv!(SenderReport, "SenderReport");
            uconv!(ReceiverReport, "ReceiverReport");
            uconv!(Sdes, "Sdes");
            uconv!(Bye, "Bye");
            uconv!(App, "App");
            uconv!(TransportFeedback, "TransportFeedback");
            uconv!(PayloadFeedback, "PayloadFeedback");
        }
        // Decoding the control information of an accepted feedback packet parses (a part of) the same byte
        // string: the numbers of a Truncated / TooLarge error it returns obey the same clause, whatever
        // part of the string they are about (the property fixes their order, not their reference).
        macro_rules! fci {
            ($P:ty, $pname:literal) => {{
                if let Ok(p) = <$P>::parse(b) {
                    macro_rules! one {
                        ($F:ty, $fname:literal) => {{
                            if let Err(e) = p.parse_fci::<$F>() {
                                out.push((concat!($pname, "::parse_fci"), $fname, Some(<$P>::PACKET_TYPE), e, None));
                            }
                        }};
                    }
                    one!(Nack, "Nack");
                    one!(Pli, "Pli");
                    one!(Sli, "Sli");
                    one!(Rpsi, "Rpsi");
                    one!(Fir, "Fir");
                }
            }};
        }
        fci!(TransportFeedback, "TransportFeedback");
        fci!(PayloadFeedback, "PayloadFeedback");
        if let Ok(c) = Compound::parse(b) {
            // An error yielded by the iteration is about one tile of the length chain. Which tile is
            // C11's business; here the error only has to be true of *some* tile (so that a tree on which
            // iteration is off but errors are honest does not alarm this property).
            if let Some(tiles) = dec::tiling(b) {
                let honest = |e: &RtcpParseError| tiles.iter().any(|&(at, end)| Packet::parse(&b[at..end]).err().as_ref() == Some(e));
                for item in c.take(tiles.len() + 1) {
                    if let Err(e) = item {
                        // the error must be exactly what the generic parser reports for one of the tiles
                        // (which tile is C11's business); an error no tile produces describes none of them
                        let ok = honest(&e);
                        out.push(("Compound::next", if ok { "tile" } else { "tile-untruthful" }, None, e, None));
                    }
                }
                // errors handed out by positional access (nth(), and skip() / step_by(), which std builds on it)
                // are errors of the compound iteration as well
                for k in 0..tiles.len().min(5) {
                    if let Ok(mut c) = Compound::parse(b) {
                        if let Some(Err(e)) = c.nth(k) {
                            let ok = honest(&e);
                            out.push(("Compound::nth", if ok { "tile" } else { "tile-untruthful" }, None, e, None));
                        }
                    }
                }
                if let Ok(c) = Compound::parse(b) {
                    for item in c.step_by(2).take(tiles.len() + 1) {
                        if let Err(e) = item {
                            let ok = honest(&e);
                            out.push(("Compound::step_by", if ok { "tile" } else { "tile-untruthful" }, None, e, None));
                        }
                    }
                }
            }
        }
        out
    });
    match conv {
        Err(_) => other_property(ctx, "c18", "conversion-or-iteration-panics(C01)"),
        Ok(list) => {
            for (route, target, pt, e, tile) in list {
                any_err = true;
                let _ = tile;
                let subject: &[u8] = b;
                let own = pt;
                ctx.class_dyn(format!("c18:{route}:{}", crate::drive::variant_name(&format!("{e:?}"))));
                let verdict = if route.starts_with("Compound::") {
                    if target == "tile-untruthful" { Err(format!("{e:?} is true of no tile of the datagram")) } else { Ok(()) }
                } else {
                    truthful(&e, subject, own)
                };
                if let Err(t) = verdict {
                    ctx.violate(
                        "payload-truthful",
                        route,
                        &format!("{target}:{}", crate::drive::variant_name(&format!("{e:?}"))),
                        || bytes_case("c18", b),
                        "the error describes the input accurately",
                        format!("{route} -> {target} on {}: {t}", hex(&subject[..subject.len().min(40)])),
                    );
                }
            }
        }
    }
    if any_err {
        ctx.nontrivial(fnv(b));
        ctx.sample_sparse(200_003, || J::obj().set("len", len).set("hex", hex(&b[..len.min(64)])));
    }
}

pub fn run_c18(ctx: &mut Ctx, shard: usize, nshards: usize) {
    bytes_workload(ctx, shard, nshards, 0xc18, 150_000, 3_000_000, &mut |ctx, b| check_c18(ctx, b));
}
pub fn floor_c18(ctx: &Ctx) -> Vec<(String, bool)> {
    let all = ctx.all_classes();
    let mut f = vec![];
    for n in ["SenderReport", "ReceiverReport", "Sdes", "Bye", "App", "TransportFeedback", "PayloadFeedback", "Unknown", "Packet"] {
        for s in ["below-minimum", "length-field"] {
            let c = format!("c18:{n}:specific:{s}");
            f.push((c.clone(), all.contains_key(&c)));
        }
        for v in ["UnsupportedVersion", "Truncated", "TooLarge"] {
            let c = format!("c18:{n}:{v}");
            f.push((c.clone(), all.contains_key(&c)));
        }
        if n != "Unknown" && n != "Packet" {
            for v in ["PacketTypeMismatch", "InvalidPadding"] {
                let c = format!("c18:{n}:{v}");
                f.push((c.clone(), all.contains_key(&c)));
            }
        }
    }
    for c in ["c18:Compound:Truncated", "c18:ReportBlock:Truncated", "c18:ReportBlock:TooLarge", "c18:Compound:specific:below-minimum"] {
        f.push((c.to_string(), all.contains_key(c)));
    }
    f
}

// ================================================================== C12

/// outcome of the generic parser and of the typed parser chosen by the type byte
pub fn check_c12(ctx: &mut Ctx, input: &[u8]) {
    let data = exact(input);
    let b: &[u8] = &data;
    let _case = crate::watchdog::case_bytes("c12", b);
    if b.len() < 4 {
        return;
    }
    ctx.eval();
    let sel = Ty::of_pt(b[1]);
    let sel_name = sel.map(|t| t.name()).unwrap_or("Unknown");
    let r = call(|| -> Result<(), (String, String, String)> {
        // (clause, feature, text)
        let g = Packet::parse(b);
        macro_rules! typed {
            ($T:ty, $V:ident) => {{
                let t = <$T>::parse(b);
                match (&g, &t) {
                    (Err(a), Err(c)) if a == c => {}
                    (Ok(Packet::$V(x)), Ok(y)) if x == y => {}
                    _ => {
                        return Err((
                            "dispatch".into(),
                            sel_name.into(),
                            format!("typed parser gives {:?}; generic parser gives {:?}", t.as_ref().map(|_| "Ok"), g.as_ref().map(|p| obs::packet_variant(p))).to_string()
                                + &format!(" (typed: {t:?}; generic: {g:?})"),
                        ))
                    }
                }
            }};
        }
        match sel {
            Some(Ty::Sr) => typed!(SenderReport, Sr),
            Some(Ty::Rr) => typed!(ReceiverReport, Rr),
            Some(Ty::Sdes) => typed!(Sdes, Sdes),
            Some(Ty::Bye) => typed!(Bye, Bye),
            Some(Ty::App) => typed!(App, App),
            Some(Ty::Tfb) => typed!(TransportFeedback, TransportFeedback),
            Some(Ty::Pfb) => typed!(PayloadFeedback, PayloadFeedback),
            None => {
                let t = Unknown::parse(b);
                match (&g, &t) {
                    (Err(a), Err(c)) if a == c => {}
                    (Ok(Packet::Unknown(x)), Ok(y)) if x == y => {
                        if x.data().as_ptr() != b.as_ptr() || x.data().len() != b.len() {
                            return Err(("unknown-exposes-input".into(), "data".into(), "Unknown::data() is not the input slice".into()));
                        }
                    }
                    _ => return Err(("dispatch".into(), "Unknown".into(), format!("Unknown::parse gives {t:?}; generic parser gives {g:?}"))),
                }
            }
        }
        // conversions from an accepted generic packet
        let Ok(p) = &g else { return Ok(()) };
        let src = obs::packet_variant(p);
        // the public observer of the selection: "unknown" is the variant the generic parser falls back to, and the one
        // `Packet::from(unknown)` makes, whatever type number the bytes carry
        if p.is_unknown() != (src == "Unknown") {
            return Err(("dispatch".into(), format!("{src}:is_unknown"), format!("the generic parser selected variant {src} but is_unknown() is {}", p.is_unknown())));
        }
        if let Ok(u) = Unknown::parse(b) {
            let p2 = Packet::from(u);
            if !p2.is_unknown() || obs::packet_variant(&p2) != "Unknown" {
                return Err(("from-typed".into(), "Unknown:is_unknown".into(), format!("Packet::from(Unknown) is variant {} with is_unknown() {}", obs::packet_variant(&p2), p2.is_unknown())));
            }
        }
        macro_rules! conv {
            ($T:ty, $name:literal) => {{
                let direct = <$T>::parse(b);
                let want: Result<$T, RtcpParseError> = if src == $name {
                    direct
                } else if src == "Unknown" {
                    direct
                } else {
                    Err(RtcpParseError::PacketTypeMismatch { actual: b[1], requested: <$T>::PACKET_TYPE })
                };
                let a = p.try_as::<$T>();
                let c = <$T>::try_from(p);
                let owned = <$T>::try_from(Packet::parse(b).expect("parsed before"));
                for (how, got) in [("try_as", &a), ("TryFrom<&Packet>", &c), ("TryFrom<Packet>", &owned)] {
                    if *got != want {
                        return Err((
                            "conversion".into(),
                            format!("{src}->{}", $name),
                            format!("{how}: expected {want:?}, got {got:?}"),
                        ));
                    }
                }
                if let Packet::Unknown(u) = p {
                    let ua = u.try_as::<$T>();
                    let uo = <$T>::try_from(Unknown::parse(b).expect("parsed before"));
                    if ua != want || uo != want {
                        return Err(("unknown-conversion".into(), format!("Unknown->{}", $name), format!("expected {want:?}, got {ua:?} / {uo:?}")));
                    }
                }
                if let Ok(t) = a {
                    let back = Packet::from(t);
                    if obs::packet_variant(&back) != $name || back.is_unknown() {
                        return Err(("from-typed".into(), $name.into(), format!("Packet::from gives variant {} with is_unknown() {}", obs::packet_variant(&back), back.is_unknown())));
                    }
                }
            }};
        }
        conv!(SenderReport, "Sr");
        conv!(ReceiverReport, "Rr");
        conv!(Sdes, "Sdes");
        conv!(Bye, "Bye");
        conv!(App, "App");
        conv!(TransportFeedback, "TransportFeedback");
        conv!(PayloadFeedback, "PayloadFeedback");
        // an unknown packet may also carry a *known* type number (built with `Packet::from(unknown)`):
        // converting it "returns exactly what the typed parser returns on the same bytes"
        if Unknown::parse(b).is_ok() {
            macro_rules! wrapped {
                ($T:ty, $name:literal) => {{
                    let want = <$T>::parse(b);
                    let p2 = Packet::from(Unknown::parse(b).expect("parsed before"));
                    let a = p2.try_as::<$T>();
                    let c = <$T>::try_from(&p2);
                    let owned = <$T>::try_from(Packet::from(Unknown::parse(b).expect("parsed before")));
                    for (how, got) in [("Packet::from(Unknown).try_as", &a), ("TryFrom<&Packet::from(Unknown)>", &c), ("TryFrom<Packet::from(Unknown)>", &owned)] {
                        if *got != want {
                            return Err(("unknown-conversion".into(), format!("Packet::from(Unknown)->{}", $name), format!("{how}: expected {want:?}, got {got:?}")));
                        }
                    }
                }};
            }
            wrapped!(SenderReport, "Sr");
            wrapped!(ReceiverReport, "Rr");
            wrapped!(Sdes, "Sdes");
            wrapped!(Bye, "Bye");
            wrapped!(App, "App");
            wrapped!(TransportFeedback, "TransportFeedback");
            wrapped!(PayloadFeedback, "PayloadFeedback");
        }
        Ok(())
    });
    // classes for the floor: (source variant, target) cells are all exercised whenever the generic parser accepts
    let accepted = call(|| Packet::parse(b).map(|p| obs::packet_variant(&p)).ok()).ok().flatten();
    match accepted {
        Some(v) => {
            ctx.class_dyn(format!("c12:generic-ok:{v}"));
            ctx.nontrivial(fnv(b));
        }
        None => ctx.class_dyn(format!("c12:generic-err:{sel_name}")),
    }
    match r {
        Err(p) => {
            // which side unwound? if the typed parser selected by the type byte unwinds on its own and the
            // generic parser does too, the two outcomes are the same (and the unwind is C01's business)
            let typed_alone = call(|| match sel {
                Some(Ty::Sr) => SenderReport::parse(b).is_ok(),
                Some(Ty::Rr) => ReceiverReport::parse(b).is_ok(),
                Some(Ty::Sdes) => Sdes::parse(b).is_ok(),
                Some(Ty::Bye) => Bye::parse(b).is_ok(),
                Some(Ty::App) => App::parse(b).is_ok(),
                Some(Ty::Tfb) => TransportFeedback::parse(b).is_ok(),
                Some(Ty::Pfb) => PayloadFeedback::parse(b).is_ok(),
                None => Unknown::parse(b).is_ok(),
            });
            let generic_alone = call(|| Packet::parse(b).is_ok());
            if typed_alone.is_err() && generic_alone.is_err() {
                other_property(ctx, "c12", "both-parsers-panic(C01)");
            } else {
                panic_violation(ctx, "c12", sel_name, b, &p);
            }
        }
        Ok(Err((clause, feature, text))) => ctx.violate(
            &clause,
            sel_name,
            &feature,
            || bytes_case("c12", b),
            "generic dispatch and conversions agree with the typed parsers",
            format!("{} on {}", text, hex(&b[..b.len().min(40)])),
        ),
        Ok(Ok(())) => {}
    }
    ctx.sample_sparse(200_003, || J::obj().set("len", b.len()).set("hex", hex(&b[..b.len().min(64)])));
}

pub fn run_c12(ctx: &mut Ctx, shard: usize, nshards: usize) {
    bytes_workload(ctx, shard, nshards, 0xc12, 150_000, 3_000_000, &mut |ctx, b| check_c12(ctx, b));
}
pub fn floor_c12(ctx: &Ctx) -> Vec<(String, bool)> {
    let all = ctx.all_classes();
    let mut f = vec![];
    for v in ["Sr", "Rr", "Sdes", "Bye", "App", "TransportFeedback", "PayloadFeedback", "Unknown"] {
        let c = format!("c12:generic-ok:{v}");
        f.push((format!("{c} (source variant of 7 conversion cells)"), all.contains_key(&c)));
    }
    for v in ["SenderReport", "ReceiverReport", "Sdes", "Bye", "App", "TransportFeedback", "PayloadFeedback", "Unknown"] {
        let c = format!("c12:generic-err:{v}");
        f.push((c.clone(), all.contains_key(&c)));
    }
    f
}

// ================================================================== C11

/// One `next()` call history over an accepted compound; returns Debug renderings
/// of everything yielded, plus the results of 3 calls after the first `None`.
fn iterate_with_history(b: &[u8], hist: u64) -> Result<(Vec<String>, Vec<bool>), RtcpParseError> {
    let mut c = Compound::parse(b)?;
    let mut out = vec![];
    let bound = b.len() + 8;
    // the provided Iterator methods (which an implementation may override) must agree with next()
    let straight = |b: &[u8]| -> Vec<String> {
        let mut v = vec![];
        if let Ok(c) = Compound::parse(b) {
            for r in c {
                v.push(format!("{r:?}"));
                assert!(v.len() <= bound, "{}", obs::STEP_BOUND_MSG);
            }
        }
        v
    };
    match hist % 8 {
        4 => {
            // count() on a fresh iterator, and on one advanced by j
            let all = straight(b);
            let n = Compound::parse(b)?.count();
            let j = (hist / 8 % 4) as usize;
            let mut adv = Compound::parse(b)?;
            let taken = adv.by_ref().take(j).count();
            let rest = adv.count();
            out = all.clone();
            if n != all.len() {
                out.push(format!("count() == {n} but next() yields {} items", all.len()));
            }
            if taken + rest != all.len() {
                out.push(format!("after {taken} items count() == {rest}, next() yields {} items in all", all.len()));
            }
            c = Compound::parse(b)?;
            for _ in c.by_ref() {}
        }
        5 => {
            // last() and size_hint()
            let all = straight(b);
            let (lo, hi) = Compound::parse(b)?.size_hint();
            let last = Compound::parse(b)?.last().map(|r| format!("{r:?}"));
            out = all.clone();
            if lo > all.len() || hi.map(|h| h < all.len()).unwrap_or(false) {
                out.push(format!("size_hint() == ({lo}, {hi:?}) but next() yields {} items", all.len()));
            }
            if last.as_ref() != all.last() {
                out.push(format!("last() == {last:?}, the last item of next() is {:?}", all.last()));
            }
            c = Compound::parse(b)?;
            for _ in c.by_ref() {}
        }
        6 => {
            // nth(j) then the rest
            let j = (hist / 8 % 5) as usize;
            match c.nth(j) {
                Some(r) => {
                    let all = straight(b);
                    out.extend(all.iter().take(j).cloned());
                    out.push(format!("{r:?}"));
                    for r in c.by_ref() {
                        out.push(format!("{r:?}"));
                        assert!(out.len() <= bound, "{}", obs::STEP_BOUND_MSG);
                    }
                }
                None => {
                    // fewer than j+1 items: everything was consumed
                    out = straight(b);
                    if out.len() > j && !out.iter().take(j + 1).any(|x| x.starts_with("Err")) {
                        out.push(format!("nth({j}) == None although next() yields {} items", out.len()));
                    }
                }
            }
        }
        0 | 7 => {
            // straight drain
            while let Some(r) = c.next() {
                out.push(format!("{r:?}"));
                assert!(out.len() <= bound, "{}", obs::STEP_BOUND_MSG);
            }
        }
        1 => {
            // take(j) through by_ref, then resume
            let j = (hist / 4 % 4) as usize;
            for r in c.by_ref().take(j) {
                out.push(format!("{r:?}"));
            }
            for r in c.by_ref() {
                out.push(format!("{r:?}"));
                assert!(out.len() <= bound, "{}", obs::STEP_BOUND_MSG);
            }
        }
        2 => {
            // peekable over by_ref: interleaved peeks
            let mut p = c.by_ref().peekable();
            while p.peek().is_some() {
                let _ = p.peek();
                if let Some(r) = p.next() {
                    out.push(format!("{r:?}"));
                }
                assert!(out.len() <= bound, "{}", obs::STEP_BOUND_MSG);
            }
        }
        _ => {
            // one at a time through nth(0) / next() alternately
            let mut k = 0;
            loop {
                let r = if k % 2 == 0 { c.next() } else { c.nth(0) };
                k += 1;
                match r {
                    Some(r) => out.push(format!("{r:?}")),
                    None => break,
                }
                assert!(out.len() <= bound, "{}", obs::STEP_BOUND_MSG);
            }
        }
    }
    let after: Vec<bool> = (0..3).map(|_| c.next().is_none()).collect();
    Ok((out, after))
}

pub fn check_c11(ctx: &mut Ctx, input: &[u8]) {
    let data = exact(input);
    let b: &[u8] = &data;
    let _case = crate::watchdog::case_bytes("c11", b);
    ctx.eval();
    let tiles = dec::tiling(b);
    let hist = mix(fnv(b), ctx.seed);
    let r = call(|| iterate_with_history(b, hist));
    match r {
        Err(p) => {
            // does the generic parser unwind on one of the tiles on its own? then iteration "yields what the
            // generic parser returns" there as well, namely nothing (C01's business); otherwise iteration
            // (or Compound::parse) unwinds where the per-tile parser returns: this property
            let alone = call(|| {
                if let Some(t) = &tiles {
                    for (a, z) in t {
                        if Packet::parse(&b[*a..*z]).is_err() {
                            break;
                        }
                    }
                }
            });
            if alone.is_err() {
                other_property(ctx, "c11", "tile-parser-panics(C01)");
            } else {
                panic_violation(ctx, "c11", "Compound", b, &p);
            }
        }
        Ok(Err(e)) => {
            if tiles.is_some() {
                ctx.violate(
                    "accept-iff-tiling",
                    "Compound",
                    "rejects-tiled",
                    || bytes_case("c11", b),
                    "a non-empty string partitioned exactly by its length fields is accepted",
                    format!("Compound::parse gives Err({e:?}) on {}", hex(&b[..b.len().min(48)])),
                );
            } else {
                ctx.class(if b.is_empty() {
                    "c11:reject:empty"
                } else if b.len() % 4 != 0 {
                    "c11:reject:ragged"
                } else {
                    "c11:reject:chain"
                });
            }
        }
        Ok(Ok((items, after))) => {
            let Some(tiles) = tiles else {
                ctx.violate(
                    "accept-iff-tiling",
                    "Compound",
                    "accepts-untiled",
                    || bytes_case("c11", b),
                    "a string whose length fields do not partition it is rejected",
                    format!("Compound::parse accepts {}", hex(&b[..b.len().min(48)])),
                );
                return;
            };
            ctx.class("c11:accept");
            // expected: Packet::parse per tile up to and including the first Err
            let exp = call(|| {
                let mut v = vec![];
                for (a, z) in &tiles {
                    let r = Packet::parse(&b[*a..*z]);
                    let stop = r.is_err();
                    v.push(format!("{r:?}"));
                    if stop {
                        break;
                    }
                }
                v
            });
            let exp = match exp {
                Ok(v) => v,
                Err(_) => {
                    // the reference (generic parser on a tile) unwinds: nothing to compare with (C01's business)
                    other_property(ctx, "c11", "tile-parser-panics(C01)");
                    return;
                }
            };
            if exp.len() < tiles.len() {
                let pos = exp.len() - 1;
                ctx.class(if pos == 0 { "c11:error-at-first-tile" } else if pos + 1 == tiles.len() { "c11:error-at-last-tile" } else { "c11:error-at-middle-tile" });
            } else if exp.last().map(|l| l.starts_with("Err")).unwrap_or(false) {
                ctx.class(if tiles.len() == 1 { "c11:error-at-first-tile" } else { "c11:error-at-last-tile" });
            }
            if items != exp {
                let k = items.iter().zip(&exp).position(|(a, b)| a != b).unwrap_or(items.len().min(exp.len()));
                ctx.violate(
                    "iteration-equals-tiles",
                    "Compound",
                    if items.len() > tiles.len() {
                        "more-items-than-tiles"
                    } else if items.len() > exp.len() {
                        "continues-after-error"
                    } else if items.len() < exp.len() {
                        "stops-early"
                    } else {
                        "item-differs"
                    },
                    || bytes_case("c11", b).set("history", hist % 16),
                    format!("{} items (of {} tiles); item {k}: {:?}", exp.len(), tiles.len(), exp.get(k)),
                    format!("{} items; item {k}: {:?}", items.len(), items.get(k)),
                );
            } else if after.iter().any(|x| !x) {
                ctx.violate(
                    "fused",
                    "Compound",
                    "yields-after-end",
                    || bytes_case("c11", b).set("history", hist % 16),
                    "next() keeps returning None once finished",
                    format!("after the end: {:?}", after),
                );
            }
            ctx.nontrivial(fnv(b));
            ctx.sample_sparse(100_003, || J::obj().set("tiles", tiles.len()).set("len", b.len()).set("history", hist % 4));
        }
    }
}

pub fn run_c11(ctx: &mut Ctx, shard: usize, nshards: usize) {
    // sweep of tilings: k = 1..=5 tiles of lengths {4,8,12,28,32,52} over packet kinds, one failing tile
    // at each position, total length perturbed, a tile claiming more than remains
    let lens = [4usize, 8, 12, 28, 32, 52];
    let pts = [200u8, 201, 202, 203, 204, 205, 206, 199, 0];
    let mut idx = 0u64;
    let mut s = Src::prng(mix(ctx.seed, 0xc11_0000 + shard as u64));
    let rounds = ctx.n(if ctx.thorough { 400_000 } else { 30_000 });
    for _ in 0..rounds {
        idx += 1;
        let k = s.range(1, 5);
        let mut v = vec![];
        let bad_at = if s.chance(1, 2) { Some(s.below(k)) } else { None };
        for t in 0..k {
            let l = s.pick(&lens);
            let pt = s.pick(&pts);
            let start = v.len();
            v.extend_from_slice(&[0x80, pt, 0, (l / 4 - 1) as u8]);
            for i in 4..l {
                v.push(if s.chance(1, 4) { s.u8() } else { (i % 3) as u8 });
            }
            // plausible counts so that many tiles parse
            let c = match pt {
                200 => (l.saturating_sub(28) / 24) as u8,
                201 => (l.saturating_sub(8) / 24) as u8,
                203 => ((l - 4) / 4) as u8,
                202 => 0,
                _ => s.u8() & 0x1f,
            };
            if pt == 202 {
                for x in &mut v[start + 4..] {
                    *x = 0;
                }
            }
            v[start] = 0x80 | c;
            if Some(t) == bad_at {
                match s.below(3) {
                    0 => v[start] = (v[start] & 0x3f) | 0x40, // bad version
                    1 => v[start] = (v[start] & 0xe0) | 31,   // count too large
                    _ => v[start + 1] = 200,                  // too short for an SR (when l < 28)
                }
            }
        }
        match s.below(8) {
            0 => {
                let d = s.range(1, 4);
                v.truncate(v.len().saturating_sub(d));
            }
            1 => {
                for _ in 0..s.range(1, 4) {
                    v.push(0);
                }
            }
            2 => {
                // a tile claiming more than remains
                let l = v.len();
                if l >= 4 {
                    let last_start = l - 4.min(l);
                    v[last_start + 3] = v[last_start + 3].wrapping_add(s.range(1, 3) as u8);
                }
            }
            _ => {}
        }
        check_c11(ctx, &v);
    }
    let _ = idx;
    bytes_workload(ctx, shard, nshards, 0xc11, 60_000, 1_500_000, &mut |ctx, b| check_c11(ctx, b));
    // mutated model compounds
    let n = ctx.n(if ctx.thorough { 300_000 } else { 30_000 });
    for i in 0..n {
        let mut v = gb::valid_compound(&mut s);
        if i % 3 != 0 {
            gb::mutate(&mut s, &mut v);
        }
        check_c11(ctx, &v);
    }
}

pub fn floor_c11(ctx: &Ctx) -> Vec<(String, bool)> {
    let all = ctx.all_classes();
    ["c11:accept", "c11:reject:empty", "c11:reject:ragged", "c11:reject:chain", "c11:error-at-first-tile", "c11:error-at-middle-tile", "c11:error-at-last-tile"]
        .iter()
        .map(|c| (c.to_string(), all.contains_key(*c)))
        .collect()
}

// ================================================================== C09

/// pointer-range check of a returned slice against the input and its expected offset
fn within(b: &[u8], s: &[u8], expect_off: usize, what: &str) -> Result<(), String> {
    if s.is_empty() {
        return Ok(()); // a correct implementation may return a static empty slice
    }
    let base = b.as_ptr() as usize;
    let p = s.as_ptr() as usize;
    if p < base || p + s.len() > base + b.len() {
        return Err(format!("{what}: returned slice is not inside the input buffer"));
    }
    if p - base != expect_off {
        return Err(format!("{what}: slice starts at offset {}, the field is at offset {expect_off}", p - base));
    }
    Ok(())
}

fn rb_at(b: &[u8], o: usize) -> obs::RbObs {
    obs::RbObs {
        ssrc: dec::be32(b, o),
        fraction: b[o + 4],
        cumulative: dec::be24(b, o + 5),
        ext_seq: dec::be32(b, o + 8),
        jitter: dec::be32(b, o + 12),
        lsr: dec::be32(b, o + 16),
        dlsr: dec::be32(b, o + 20),
    }
}

/// first half of C09: accessors == independent reads at the RFC offsets
pub fn check_c09_bytes(ctx: &mut Ctx, input: &[u8]) {
    let data = exact(input);
    let b: &[u8] = &data;
    let _case = crate::watchdog::case_bytes("c09-bytes", b);
    let len = b.len();
    ctx.eval();
    let bound = obs::bound_for(len);
    let mut accepted = false;
    let mut report = |ctx: &mut Ctx, name: &'static str, r: Result<Result<Option<()>, String>, Panicked>| match r {
        // "for every byte string a parser accepts": an unwinding parser has accepted nothing (C01's
        // business); an accessor unwinding on an accepted value does not return the value it owes
        Err(p) if did_parser_return() => panic_violation(ctx, "c09-bytes", name, b, &p),
        Err(_) => other_property(ctx, "c09", "parser-panics(C01)"),
        Ok(Err(why)) => {
            let field = why.split(':').next().unwrap_or("field").to_string();
            ctx.violate(
                "accessor-equals-wire",
                name,
                &field,
                || bytes_case("c09-bytes", b),
                "each accessor returns the big-endian value / byte range at the RFC offset, as a sub-slice of the input",
                format!("{name}: {why} on {}", hex(&b[..len.min(64)])),
            );
        }
        Ok(Ok(Some(()))) => {
            accepted = true;
            ctx.class_dyn(format!("c09:accept:{name}"));
        }
        Ok(Ok(None)) => {}
    };
    macro_rules! eqf {
        ($name:literal, $got:expr, $want:expr) => {
            if $got != $want {
                return Err(format!("{}: accessor returns {:?}, the wire says {:?}", $name, $got, $want));
            }
        };
    }
    let blocks_ok = |got: Vec<ReportBlock>, first: usize, count: usize| -> Result<(), String> {
        if got.len() != count {
            return Err(format!("report_blocks: {} blocks yielded, count field says {count}", got.len()));
        }
        for (i, g) in got.iter().enumerate() {
            let w = rb_at(b, first + 24 * i);
            let o = obs::rb(g);
            if o != w {
                return Err(format!("report_blocks[{i}]: accessor returns {o:?}, the wire says {w:?}"));
            }
        }
        Ok(())
    };
    reset_parser_returned();
    let r = call(|| {
        let Ok(p) = SenderReport::parse(b) else { return Ok(None) };
        parser_returned();
        eqf!("ssrc", p.ssrc(), dec::be32(b, 4));
        eqf!("ntp_timestamp", p.ntp_timestamp(), dec::be64(b, 8));
        eqf!("rtp_timestamp", p.rtp_timestamp(), dec::be32(b, 16));
        eqf!("packet_count", p.packet_count(), dec::be32(b, 20));
        eqf!("octet_count", p.octet_count(), dec::be32(b, 24));
        eqf!("n_reports", p.n_reports(), b[0] & 0x1f);
        blocks_ok(obs::drain(p.report_blocks(), bound), 28, (b[0] & 0x1f) as usize)?;
        Ok(Some(()))
    });
    report(ctx, "SenderReport", r);
    reset_parser_returned();
    let r = call(|| {
        let Ok(p) = ReceiverReport::parse(b) else { return Ok(None) };
        parser_returned();
        eqf!("ssrc", p.ssrc(), dec::be32(b, 4));
        eqf!("n_reports", p.n_reports(), b[0] & 0x1f);
        blocks_ok(obs::drain(p.report_blocks(), bound), 8, (b[0] & 0x1f) as usize)?;
        Ok(Some(()))
    });
    report(ctx, "ReceiverReport", r);
    reset_parser_returned();
    let r = call(|| {
        let Ok(p) = ReportBlock::parse(b) else { return Ok(None) };
        parser_returned();
        let o = obs::rb(&p);
        let w = rb_at(b, 0);
        if o != w {
            return Err(format!("report block: accessor returns {o:?}, the wire says {w:?}"));
        }
        Ok(Some(()))
    });
    report(ctx, "ReportBlock", r);
    reset_parser_returned();
    let r = call(|| {
        let Ok(p) = App::parse(b) else { return Ok(None) };
        parser_returned();
        eqf!("ssrc", p.ssrc(), dec::be32(b, 4));
        eqf!("subtype", p.subtype(), b[0] & 0x1f);
        eqf!("name", &p.name()[..], &b[8..12]);
        let pad = if dec::p_bit(b) { b[len - 1] as usize } else { 0 };
        if 12 + pad <= len {
            let d = p.data();
            if d != &b[12..len - pad] {
                return Err(format!("data: accessor returns {} bytes, the wire has {} payload bytes", d.len(), len - pad - 12));
            }
            within(b, d, 12, "data")?;
        } else {
            let _ = p.data(); // no RFC-defined payload range: only required not to panic
        }
        Ok(Some(()))
    });
    report(ctx, "App", r);
    reset_parser_returned();
    let r = call(|| {
        let Ok(p) = Bye::parse(b) else { return Ok(None) };
        parser_returned();
        let c = (b[0] & 0x1f) as usize;
        let s = obs::drain(p.ssrcs(), bound);
        let want: Vec<u32> = (0..c).map(|i| dec::be32(b, 4 + 4 * i)).collect();
        eqf!("ssrcs", s, want);
        let pad = if dec::p_bit(b) { b[len - 1] as usize } else { 0 };
        let off = 4 + 4 * c;
        if off + pad <= len {
            let body_end = len - pad;
            let got = p.reason();
            if off == body_end {
                if let Some(r) = got {
                    if !r.is_empty() {
                        return Err(format!("reason: {} bytes returned, the packet has no reason field", r.len()));
                    }
                }
            } else {
                let rl = b[off] as usize;
                if off + 1 + rl <= body_end {
                    let want = &b[off + 1..off + 1 + rl];
                    match got {
                        Some(r) => {
                            if r != want {
                                return Err(format!("reason: accessor returns {}, the wire says {}", hex(r), hex(want)));
                            }
                            within(b, r, off + 1, "reason")?;
                        }
                        None => {
                            if rl != 0 {
                                return Err(format!("reason: None returned, the wire carries {rl} reason bytes"));
                            }
                        }
                    }
                }
                // a length byte reaching into the padding has no RFC-defined range: not compared
            }
        } else {
            let _ = p.reason();
        }
        Ok(Some(()))
    });
    report(ctx, "Bye", r);
    reset_parser_returned();
    let r = call(|| {
        let Ok(p) = TransportFeedback::parse(b) else { return Ok(None) };
        parser_returned();
        eqf!("sender_ssrc", p.sender_ssrc(), dec::be32(b, 4));
        eqf!("media_ssrc", p.media_ssrc(), dec::be32(b, 8));
        eqf!("format", p.count(), b[0] & 0x1f);
        Ok(Some(()))
    });
    report(ctx, "TransportFeedback", r);
    reset_parser_returned();
    let r = call(|| {
        let Ok(p) = PayloadFeedback::parse(b) else { return Ok(None) };
        parser_returned();
        eqf!("sender_ssrc", p.sender_ssrc(), dec::be32(b, 4));
        eqf!("media_ssrc", p.media_ssrc(), dec::be32(b, 8));
        eqf!("format", p.count(), b[0] & 0x1f);
        Ok(Some(()))
    });
    report(ctx, "PayloadFeedback", r);
    reset_parser_returned();
    let r = call(|| {
        let Ok(p) = Unknown::parse(b) else { return Ok(None) };
        parser_returned();
        if p.data() != b {
            return Err("data: Unknown::data() differs from the input".into());
        }
        // "the byte range found at the offset the RFC assigns": the packet is the 4 * (length field + 1) bytes from
        // the start of the input; bytes of the slice behind them belong to something else
        let h = 4 * (dec::be16(b, 2) as usize + 1);
        if p.data().len() != h {
            return Err(format!("data-extent: Unknown::data() has {} bytes although the header describes a packet of {h}", p.data().len()));
        }
        within(b, p.data(), 0, "data")?;
        Ok(Some(()))
    });
    report(ctx, "Unknown", r);
    if accepted {
        ctx.nontrivial(fnv(b));
        ctx.sample_sparse(200_003, || J::obj().set("len", len).set("hex", hex(&b[..len.min(64)])));
    }
}

/// second half of C09: packets from the independent encoder are accepted and read back equal
pub fn check_c09_cfg(ctx: &mut Ctx, cfg: &crate::cfg::Cfg) {
    let _case = crate::watchdog::case_cfg("c09-cfg", cfg, crate::drive::How::default());
    if !crate::mon::roundtrip::in_domain(cfg) && !matches!(cfg, crate::cfg::Cfg::Unknown { .. }) {
        return;
    }
    if matches!(cfg, crate::cfg::Cfg::Sdes { .. }) {
        return; // SDES is not a fixed-layout parser (C10's job)
    }
    let Some(bytes) = enc::enc(cfg) else { return };
    check_c09_image(ctx, cfg, &bytes);
    // RFC 3550 6.4.1 / 6.4.2: a sender or receiver report may carry a profile-specific extension after its
    // report blocks (before any padding); the fixed fields and the blocks read back the same
    if let crate::cfg::Cfg::Sr { .. } | crate::cfg::Cfg::Rr { .. } = cfg {
        let mut bare = cfg.clone();
        bare.set_padding(0);
        if let Some(mut b) = enc::enc(&bare) {
            let words = 1 + (crate::ctx::hash_of(cfg) % 3) as usize;
            let fill = if crate::ctx::hash_of(cfg) % 5 == 0 { 0u8 } else { 0xe7 };
            b.extend(std::iter::repeat(fill).take(4 * words));
            gb::fix_len(&mut b);
            let b = if cfg.padding() > 0 { enc::pad(&b, cfg.padding()) } else { b };
            if b.len() <= enc::MAX_PACKET_BYTES {
                ctx.class("c09:report-with-profile-extension");
                check_c09_image(ctx, cfg, &b);
            }
        }
    }
}

/// `bytes` is a well-formed image of `cfg`: it must be accepted and read back equal.
fn check_c09_image(ctx: &mut Ctx, cfg: &crate::cfg::Cfg, bytes: &[u8]) {
    ctx.eval();
    let kind = cfg.kind_name();
    let case = || crate::ctx::cfg_case("c09-cfg", cfg, crate::drive::How::default()).set("image", hex(&bytes[..bytes.len().min(256)]));
    let data = exact(bytes);
    if let crate::cfg::Cfg::Unknown { .. } = cfg {
        match call(|| Unknown::parse(&data).map(|u| u.data() == &data[..])) {
            Ok(Ok(true)) => ctx.class("c09:enc-accepted:unknown"),
            other => ctx.violate("well-formed-accepted", kind, "unknown", case, "accepted, data() == input", format!("{other:?}")),
        }
        return;
    }
    let ty = Ty::of_cfg(cfg).unwrap();
    match obs::parse_typed_fixed_layout(ty, &data) {
        Err(p) => ctx.violate("well-formed-accepted", kind, "panic", case, "accepted", format!("panic at {}: {}", short_site(&p.site), p.msg)),
        Ok(Err(e)) => ctx.violate(
            "well-formed-accepted",
            kind,
            crate::drive::variant_name(&format!("{e:?}")),
            case,
            "a well-formed packet from the independent encoder is accepted",
            format!("{}::parse fails with {e:?} on {}", ty.name(), hex(&bytes[..bytes.len().min(64)])),
        ),
        Ok(Ok(parsed)) => {
            ctx.class_dyn(format!("c09:enc-accepted:{kind}:{}", if cfg.padding() > 0 { "padded" } else { "unpadded" }));
            let want_pad = if cfg.padding() == 0 { None } else { Some(cfg.padding()) };
            let exp = crate::expect::content(cfg).unwrap();
            // feedback: only the fixed header fields belong to C09 (FCI decoding is C15 / C13)
            let cmp = match (&exp, &parsed.content) {
                (obs::Content::Fb { transport, fmt, sender, media, .. }, obs::Content::Fb { transport: t2, fmt: f2, sender: s2, media: m2, .. }) => {
                    if (transport, fmt, sender, media) == (t2, f2, s2, m2) {
                        Ok(())
                    } else {
                        Err(format!("feedback header: expected {:?}, got {:?}", (transport, fmt, sender, media), (t2, f2, s2, m2)))
                    }
                }
                (a, g) => crate::expect::same(a, g, false),
            };
            if parsed.padding != want_pad {
                ctx.violate("read-back", kind, "padding", case, format!("padding() == {want_pad:?}"), format!("{:?}", parsed.padding));
            } else if let Err(why) = cmp {
                let field = why.split(':').next().unwrap_or("field").to_string();
                ctx.violate("read-back", kind, &field, case, "fields read back equal to what the encoder wrote", why);
            }
            ctx.nontrivial(crate::ctx::hash_of(cfg));
        }
    }
}

pub fn run_c09(ctx: &mut Ctx, shard: usize, nshards: usize) {
    bytes_workload(ctx, shard, nshards, 0xc09, 150_000, 3_000_000, &mut |ctx, b| check_c09_bytes(ctx, b));
    let n = ctx.n(if ctx.thorough { 600_000 } else { 40_000 });
    let mut s = Src::prng(mix(ctx.seed, 0xc09_c09 + shard as u64));
    let kinds = ["sr", "rr", "bye", "app", "tfb-nack", "pfb-pli", "pfb-sli", "pfb-rpsi", "pfb-fir", "unknown"];
    for i in 0..n {
        let c = cfgs::of_kind(&mut s, kinds[i % kinds.len()], Mix::Valid, 0);
        check_c09_cfg(ctx, &c);
        // and the same packet presented to the byte-side oracle
        if i % 4 == 0 {
            if let Some(b) = enc::enc(&c) {
                if b.len() <= 4096 {
                    check_c09_bytes(ctx, &b);
                }
            }
        }
    }
    // "well-formed packets produced by an independent RFC encoder are always accepted": also the relational
    // ones, and the ones whose image is larger than 65 535 bytes (fixed-layout kinds only)
    let mut k = 0usize;
    let mut extra = crate::mon::writers::relational_cfgs();
    if ctx.scale >= 0.5 {
        extra.extend(crate::mon::writers::large_cfgs());
    }
    for c in extra {
        k += 1;
        if k % nshards != shard || c.is_compound() || (ctx.scale < 0.5 && k % 11 != 0) {
            continue;
        }
        check_c09_cfg(ctx, &c);
        if let Some(b) = enc::enc(&c) {
            check_c09_bytes(ctx, &b);
        }
    }
}

pub fn floor_c09(ctx: &Ctx) -> Vec<(String, bool)> {
    let all = ctx.all_classes();
    let mut f = vec![];
    for n in ["SenderReport", "ReceiverReport", "ReportBlock", "App", "Bye", "TransportFeedback", "PayloadFeedback", "Unknown"] {
        let c = format!("c09:accept:{n}");
        f.push((format!("{c} >= 1000"), all.get(&c).copied().unwrap_or(0) >= if ctx.scale >= 1.0 { 1000 } else { 1 }));
    }
    for k in ["sr", "rr", "bye", "app", "tfb-nack", "pfb-pli"] {
        for p in ["padded", "unpadded"] {
            let c = format!("c09:enc-accepted:{k}:{p}");
            f.push((c.clone(), all.contains_key(&c) || !ctx.violation_counts.is_empty()));
        }
    }
    f
}
