//! C14 (compound = concatenation of members), C19 (third-party packet types
//! and the public helpers), C20 (output depends on the configuration, not on
//! the construction history).

use crate::cfg::*;
use crate::ctx::{bytes_case, cfg_case, hash_of, Ctx};
use crate::drive::{self, build_bytes, calc, call, short_site, variant_name, with_writer, write, DynW, How, WOut};
use crate::gen::cfgs::{self, Mix};
use crate::json::{hex, J};
use crate::model::{dec, enc, repr};
use crate::source::{mix, Src};
use rtcp_types::prelude::*;
use rtcp_types::*;

// ================================================================== C14

/// Debug renderings of what iterating `b` as a compound yields.
fn iterate(b: &[u8]) -> Result<Result<Vec<String>, RtcpParseError>, drive::Panicked> {
    call(|| {
        let c = Compound::parse(b)?;
        let mut out = vec![];
        for (k, r) in c.enumerate() {
            if k > b.len() {
                panic!("{}: compound iterator does not stop", crate::obs::STEP_BOUND_MSG);
            }
            out.push(format!("{r:?}"));
        }
        // "one packet per member": the count the iterator reports must be the number it yields
        let n = Compound::parse(b)?.count();
        if n != out.len() {
            out.push(format!("Compound::count() == {n} although iteration yields {} packets", out.len()));
        }
        // ... also when the members are reached by position (nth(), and skip() / step_by(), which std builds on it)
        let len = out.len();
        for k in 0..len.min(6) {
            let got = format!("{:?}", Compound::parse(b)?.nth(k));
            let want = format!("Some({})", out[k]);
            if got != want {
                out.push(format!("Compound::nth({k}) == {} although the iteration's item {k} is {}", crate::json::trunc(&got, 160), crate::json::trunc(&want, 160)));
                break;
            }
        }
        if len >= 2 {
            let skipped: Vec<String> = Compound::parse(b)?.skip(1).take(len + 1).map(|r| format!("{r:?}")).collect();
            if skipped[..] != out[1..len] {
                out.push(format!("Compound::skip(1) yields {} packets although {} follow the first", skipped.len(), len - 1));
            }
            let mut it = Compound::parse(b)?;
            let _ = it.next();
            let last = format!("{:?}", it.nth(len - 2));
            if last != format!("Some({})", out[len - 1]) {
                out.push(format!("after one packet Compound::nth({}) == {} although the last packet is {}", len - 2, crate::json::trunc(&last, 160), crate::json::trunc(&out[len - 1], 160)));
            }
        }
        Ok(out)
    })
}

/// A member's own image and the lengths of the leaf packets it consists of.
fn member_iteration(m: &Cfg, how: How) -> Result<(Vec<u8>, Vec<usize>), String> {
    match m {
        Cfg::Compound(inner) => {
            let mut bytes = vec![];
            let mut lens = vec![];
            for x in inner {
                let (b, l) = member_iteration(x, how)?;
                bytes.extend_from_slice(&b);
                lens.extend(l);
            }
            Ok((bytes, lens))
        }
        leaf => {
            // the member's own image is what it leaves in a buffer of the size it announces; a member whose writer
            // returns another number than it announced is C06's finding on its own, but its image is still defined,
            // and a compound that goes by the returned number no longer is the concatenation of its members
            let b = with_writer(leaf, how, |w| match calc(w) {
                WOut::Ok(n) if n <= (1 << 26) => {
                    let mut buf = vec![0u8; n];
                    match write(w, &mut buf) {
                        WOut::Ok(_) => Ok(buf),
                        other => Err(other),
                    }
                }
                other => Err(other),
            })
            .map_err(|e| format!("member {} cannot be built on its own: {}", leaf.shape(), e.render()))?;
            let n = b.len();
            Ok((b, vec![n]))
        }
    }
}

/// The leaf configurations of a member list, nested compounds flattened (a compound has no header of its own).
fn leaves<'a>(m: &'a Cfg, out: &mut Vec<&'a Cfg>) {
    match m {
        Cfg::Compound(inner) => inner.iter().for_each(|x| leaves(x, out)),
        leaf => out.push(leaf),
    }
}

/// "The member parsed on its own" through the *typed* parser of the member's own kind, rendered the way the
/// compound iteration renders an item. None: no typed parser of the crate belongs to this member (third-party
/// writers, unknown-builder packets that borrow a known type number).
fn typed_alone(leaf: &Cfg, tile: &[u8]) -> Option<Result<String, drive::Panicked>> {
    fn r<'a, T: Into<Packet<'a>>>(x: Result<T, RtcpParseError>) -> String {
        format!("{:?}", x.map(|v| -> Packet<'a> { v.into() }))
    }
    Some(match leaf {
        Cfg::Sr { .. } => call(|| r(SenderReport::parse(tile))),
        Cfg::Rr { .. } => call(|| r(ReceiverReport::parse(tile))),
        Cfg::Sdes { .. } => call(|| r(Sdes::parse(tile))),
        Cfg::Bye { .. } => call(|| r(Bye::parse(tile))),
        Cfg::App { .. } => call(|| r(App::parse(tile))),
        Cfg::Fb { kind: FbKind::Transport, .. } => call(|| r(TransportFeedback::parse(tile))),
        Cfg::Fb { kind: FbKind::Payload, .. } => call(|| r(PayloadFeedback::parse(tile))),
        Cfg::Unknown { pt, .. } if !(200..=206).contains(pt) => call(|| r(Unknown::parse(tile))),
        _ => return None,
    })
}

pub fn check_c14(ctx: &mut Ctx, cfg: &Cfg, how: How) {
    let _case = crate::watchdog::case_cfg("c14", cfg, how);
    let Cfg::Compound(members) = cfg else { return };
    ctx.eval();
    let case = || cfg_case("c14", cfg, how);
    ctx.class_dyn(format!("c14:members={}", match members.len() { 0 => "0", 1 => "1", 2..=4 => "2-4", _ => ">=5" }));
    for (i, m) in members.iter().enumerate() {
        let pos = if i + 1 == members.len() { "last" } else if i == 0 { "first" } else { "middle" };
        if m.padding() > 0 {
            ctx.class_dyn(format!("c14:padding-on-{pos}"));
        }
        if m.is_compound() {
            ctx.class_dyn(format!("c14:nested-{}", if pos == "last" { "last" } else { "non-last" }));
        }
        if !repr::violations(m).is_empty() {
            ctx.class_dyn(format!("c14:invalid-member-{pos}"));
        }
    }
    // What each member does *on its own* (the compositional reference): is it valid, what is its image,
    // does it request padding. "Requests padding" is read off the member's own image (P bit of its last
    // leaf packet), so that a member whose builder mislays its padding, or that is accepted although the
    // model would not represent it, is that member's finding and not the compound's.
    struct Fact {
        err: Option<RtcpWriteError>,
        image: Vec<u8>,
        lens: Vec<usize>,
        padded: bool,
    }
    let mut facts: Vec<Fact> = vec![];
    for m in members {
        let mh = how;
        match with_writer(m, mh, |w| calc(w)) {
            WOut::Err(e) => facts.push(Fact { err: Some(e), image: vec![], lens: vec![], padded: false }),
            WOut::Ok(_) => match member_iteration(m, mh) {
                Ok((image, lens)) => {
                    let padded = match lens.last() {
                        Some(l) if *l >= 4 && image.len() >= *l => image[image.len() - *l] & 0x20 != 0,
                        _ => false,
                    };
                    facts.push(Fact { err: None, image, lens, padded });
                }
                Err(_) => {
                    ctx.class("c14:other-property:member-not-writable-alone");
                    return;
                }
            },
            _ => {
                ctx.class("c14:other-property:member-size-calculation-panics");
                return;
            }
        }
    }
    let any_invalid = facts.iter().any(|f| f.err.is_some());
    let non_last_padded = facts.iter().enumerate().any(|(k, f)| f.padded && k + 1 != facts.len());
    let must_fail = any_invalid || non_last_padded;
    let (r, bytes) = with_writer(cfg, how, |w| {
        let r = calc(w);
        let mut bytes = None;
        if let WOut::Ok(n) = &r {
            if *n <= (1 << 22) {
                // zeroed (not dirty) buffers: a byte a member leaves unwritten is C17's / C07's finding and
                // must not look like a difference between two images of the same member at different offsets
                let mut buf = vec![0u8; *n];
                let got = write(w, &mut buf);
                bytes = Some((got, buf));
            }
        }
        (r, bytes)
    });
    match &r {
        WOut::WrongSize { .. } => unreachable!("calc never reports WrongSize"),
        WOut::Panic(p) => {
            ctx.violate("calculate_size-panics", "compound", &drive::site_file(&p.site), case, "calculate_size returns (it does for every member on its own)", r.render());
            return;
        }
        WOut::Err(e) => {
            if !must_fail {
                ctx.violate(
                    "rejects-valid-list",
                    "compound",
                    &format!("err={}", variant_name(&format!("{e:?}"))),
                    case,
                    "every member is valid on its own and only the last requests padding: calculate_size succeeds",
                    format!("Err({e:?})"),
                );
            } else if !(facts.iter().any(|f| f.err.as_ref() == Some(e)) || (non_last_padded && matches!(e, RtcpWriteError::NonLastCompoundPacketPadding))) {
                ctx.violate(
                    "error-is-a-members-error",
                    "compound",
                    &format!("err={}", variant_name(&format!("{e:?}"))),
                    case,
                    format!(
                        "one of the members' own errors {:?}{}",
                        facts.iter().filter_map(|f| f.err.as_ref()).collect::<Vec<_>>(),
                        if non_last_padded { " or NonLastCompoundPacketPadding" } else { "" }
                    ),
                    format!("Err({e:?})"),
                );
            } else {
                ctx.class("c14:rejected");
            }
            ctx.nontrivial(hash_of(cfg));
            return;
        }
        WOut::Ok(n) => {
            if must_fail {
                if non_last_padded && !any_invalid {
                    ctx.violate(
                        "accepts-non-last-padding",
                        "compound",
                        "non-last-padding",
                        case,
                        "Err(NonLastCompoundPacketPadding)",
                        format!("Ok({n})"),
                    );
                } else {
                    ctx.violate(
                        "accepts-invalid-member",
                        "compound",
                        "invalid-member",
                        case,
                        format!("an error: a member is rejected on its own ({:?})", facts.iter().filter_map(|f| f.err.as_ref()).collect::<Vec<_>>()),
                        format!("Ok({n})"),
                    );
                }
                return;
            }
            let n = *n;
            // members on their own
            let mut sum = 0usize;
            let mut concat = vec![];
            let mut member_lens: Vec<usize> = vec![];
            for f in &facts {
                sum += f.image.len();
                concat.extend_from_slice(&f.image);
                member_lens.extend(f.lens.iter().copied());
            }
            ctx.class("c14:accepted");
            if n != sum {
                ctx.violate("size-is-sum", "compound", "size", case, format!("size == sum of member sizes == {sum}"), format!("calculate_size() == {n}"));
                return;
            }
            let Some((got, buf)) = bytes else { return };
            if got != WOut::Ok(n) {
                ctx.violate("write", "compound", &got.class(), case, format!("write_into == Ok({n})"), got.render());
                return;
            }
            // FIR entries have no defined order (hash map): compare with FIR entries sorted
            if buf != concat && crate::mon::writers::canon_fir_only(&buf) != crate::mon::writers::canon_fir_only(&concat) {
                let d = buf.iter().zip(&concat).position(|(a, b)| a != b).unwrap_or(0);
                ctx.violate(
                    "bytes-are-concatenation",
                    "compound",
                    "bytes",
                    case,
                    format!("members' own images concatenated: {}", hex(&concat[..concat.len().min(96)])),
                    format!("first difference at {d}: {}", hex(&buf[..buf.len().min(96)])),
                );
                return;
            }
            if n > 0 {
                let data = drive::exact(&buf);
                match iterate(&data) {
                    Err(p) => {
                        // does the generic parser (or the Debug rendering of what it returns) unwind on one of the
                        // members on its own? then "equal to the member parsed on its own" is not what fails
                        let mut off = 0usize;
                        let mut alone_panics = false;
                        for l in &member_lens {
                            let tile = &data[off..(off + l).min(data.len())];
                            off += l;
                            if call(|| format!("{:?}", Packet::parse(tile))).is_err() {
                                alone_panics = true;
                                break;
                            }
                        }
                        if alone_panics {
                            ctx.class("c14:other-property:member-parse-panics-on-its-own(C01)");
                        } else {
                            ctx.violate("parse-back", "compound", "panic", case, "Compound::parse + iteration return", format!("panic at {}: {}", short_site(&p.site), p.msg));
                        }
                    }
                    Ok(Err(e)) => ctx.violate("parse-back", "compound", variant_name(&format!("{e:?}")), case, "Compound::parse accepts the written compound", format!("Err({e:?})")),
                    Ok(Ok(items)) => {
                        // "one packet per member, each equal to the member parsed on its own": the bytes were
                        // just shown to be the members' images (FIR entries in any order), so the reference is
                        // the generic parser on each member-sized tile of the written bytes; iteration stops
                        // after the first member that does not parse (C11), e.g. an Unknown-built packet that
                        // carries a known type number and a body that is not valid for it.
                        let mut expect_items: Vec<String> = vec![];
                        let mut off = 0usize;
                        for l in &member_lens {
                            let tile = &data[off..off + l];
                            off += l;
                            let r = call(|| format!("{:?}", Packet::parse(tile))).unwrap_or_else(|p| format!("panic: {}", p.msg));
                            let stop = r.starts_with("Err");
                            expect_items.push(r);
                            if stop {
                                break;
                            }
                        }
                        if items != expect_items {
                            let k = items.iter().zip(&expect_items).position(|(a, b)| a != b).unwrap_or(items.len().min(expect_items.len()));
                            ctx.violate(
                                "iteration-equals-members",
                                "compound",
                                if items.len() != expect_items.len() { "count" } else { "item" },
                                case,
                                format!("{} packets, each equal to the member parsed on its own; item {k}: {:?}", expect_items.len(), expect_items.get(k)),
                                format!("{} packets; item {k}: {:?}", items.len(), items.get(k)),
                            );
                        } else {
                            // ... and "the member parsed on its own" also means: by the typed parser that belongs to
                            // the member's builder. Where that parser accepts the member's own image, the compound
                            // must hand out that very packet (a generic path that is stricter or laxer than the typed
                            // parser for some member shape loses or alters a member of the compound).
                            let mut lv = vec![];
                            members.iter().for_each(|m| leaves(m, &mut lv));
                            let mut off = 0usize;
                            for (k, l) in member_lens.iter().enumerate() {
                                let tile = &data[off..off + l];
                                off += l;
                                let (Some(item), Some(leaf)) = (items.get(k), lv.get(k)) else { break };
                                match typed_alone(leaf, tile) {
                                    Some(Ok(t)) if t.starts_with("Ok(") => {
                                        if *item != t {
                                            ctx.violate(
                                                "member-as-parsed-by-its-own-parser",
                                                "compound",
                                                leaf.kind_name(),
                                                case,
                                                format!("item {k} is what the member's typed parser returns for the member's own image: {}", crate::json::trunc(&t, 300)),
                                                format!("item {k}: {}", crate::json::trunc(item, 300)),
                                            );
                                            break;
                                        }
                                        ctx.class("c14:member-typed-equal");
                                    }
                                    Some(_) => ctx.class("c14:other-property:member-rejected-by-its-own-parser(C02-C05)"),
                                    None => {}
                                }
                                if item.starts_with("Err") {
                                    break;
                                }
                            }
                        }
                    }
                }
            }
            ctx.nontrivial(hash_of(cfg));
            ctx.sample_sparse(10_007, || J::obj().set("cfg", cfg.shape()).set("size", n));
        }
    }
}

pub fn run_c14(ctx: &mut Ctx, shard: usize, nshards: usize) {
    // systematic: list shapes <= 3 over a set of member kinds, padding / invalidity at each position
    let leafs: Vec<Cfg> = vec![
        Cfg::Rr { ssrc: 1, blocks: vec![], padding: 0 },
        Cfg::Sr { ssrc: 2, ntp: 3, rtp: 4, pc: 5, oc: 6, blocks: vec![], padding: 0 },
        Cfg::Sdes { chunks: vec![Chunk { ssrc: 7, items: vec![Item { type_: 1, prefix: vec![], value: "cn".into() }] }], padding: 0 },
        Cfg::Bye { sources: vec![8], reason: "end".into(), padding: 0 },
        Cfg::App { ssrc: 9, subtype: 1, name: "ab".into(), data: vec![1, 2, 3, 4], padding: 0 },
        Cfg::Fb { kind: FbKind::Transport, sender: 1, media: 2, fci: Fci::Nack(vec![5, 6]), padding: 0 },
        Cfg::Fb { kind: FbKind::Payload, sender: 1, media: 2, fci: Fci::Pli, padding: 0 },
        Cfg::Unknown { pt: 199, count: 3, data: vec![4, 3, 2, 1], padding: 0 },
        Cfg::Custom { pt: 207, min: 8, count: 1, body: vec![1, 1, 1, 1], padding: 0 },
        Cfg::Compound(vec![Cfg::Rr { ssrc: 10, blocks: vec![], padding: 0 }, Cfg::Bye { sources: vec![], reason: String::new(), padding: 0 }]),
        Cfg::Compound(vec![]),
    ];
    let mut idx = 0usize;
    let mut go = |ctx: &mut Ctx, v: Vec<Cfg>| {
        idx += 1;
        if idx % nshards == shard && (ctx.scale >= 0.5 || idx % 101 == 0) {
            check_c14(ctx, &Cfg::Compound(v), crate::mon::writers::hows(idx / nshards));
        }
    };
    go(ctx, vec![]);
    // relational configurations: the compound ones as they are, the leaf ones as first / last member
    {
        let mut k = 0usize;
        for c in crate::mon::writers::relational_cfgs() {
            for h in 0..crate::drive::ROUTES {
                k += 1;
                if k % nshards != shard || (ctx.scale < 0.5 && k % 101 != 0) {
                    continue;
                }
                let how = crate::mon::writers::hows(h);
                match &c {
                    Cfg::Compound(_) => check_c14(ctx, &c, how),
                    leaf => {
                        let mut first = leaf.clone();
                        first.set_padding(0);
                        check_c14(ctx, &Cfg::Compound(vec![first, leafs[3].clone()]), how);
                        check_c14(ctx, &Cfg::Compound(vec![leafs[0].clone(), leaf.clone()]), how);
                    }
                }
            }
        }
    }
    // compounds that are larger than the largest single packet (65 536 words) although every member fits,
    // and compounds of members beyond 65 535 bytes
    if ctx.scale >= 0.5 && shard == 2 % nshards {
        let big = |pt: u8, n: usize| Cfg::Unknown { pt, count: 0, data: (0..n).map(|i| (i * 7) as u8).collect(), padding: 0 };
        let rr = Cfg::Rr { ssrc: 1, blocks: vec![], padding: 0 };
        let byep = Cfg::Bye { sources: vec![1], reason: String::new(), padding: 4 };
        check_c14(ctx, &Cfg::Compound((0..5).map(|k| big(199 + k as u8 % 2, 60_000)).collect()), How::default());
        check_c14(
            ctx,
            &Cfg::Compound(vec![
                rr.clone(),
                Cfg::App { ssrc: 1, subtype: 0, name: "big".into(), data: vec![0x42; 131_072], padding: 0 },
                Cfg::Compound(vec![big(210, 131_072), byep.clone()]),
            ]),
            crate::mon::writers::hows(1),
        );
        check_c14(ctx, &Cfg::Compound(vec![big(199, 262_140), big(199, 262_140), rr.clone()]), How::default());
        check_c14(ctx, &Cfg::Compound(vec![big(199, 65_536), byep.clone()]), crate::mon::writers::hows(4));
        ctx.class("c14:compound>65536-words");
    }
    let invalid = Cfg::App { ssrc: 1, subtype: 99, name: "x".into(), data: vec![], padding: 0 };
    for a in &leafs {
        go(ctx, vec![a.clone()]);
        for p in [4u8, 252, 3] {
            let mut x = a.clone();
            x.set_padding(p);
            go(ctx, vec![x.clone()]);
            for b in &leafs {
                go(ctx, vec![x.clone(), b.clone()]);
                go(ctx, vec![b.clone(), x.clone()]);
                if p == 4 {
                    go(ctx, vec![b.clone(), x.clone(), leafs[0].clone()]);
                    go(ctx, vec![leafs[0].clone(), b.clone(), x.clone()]);
                }
            }
        }
        for b in &leafs {
            go(ctx, vec![a.clone(), b.clone()]);
        }
        go(ctx, vec![invalid.clone(), a.clone()]);
        go(ctx, vec![a.clone(), invalid.clone()]);
        go(ctx, vec![a.clone(), invalid.clone(), a.clone()]);
    }
    let n = ctx.n(if ctx.thorough { 300_000 } else { 12_000 });
    let mut s = Src::prng(mix(ctx.seed, 0xc14 + shard as u64));
    for i in 0..n {
        let c = cfgs::compound(&mut s, if i % 3 == 0 { Mix::Limit } else { Mix::Valid }, 0);
        check_c14(ctx, &c, crate::mon::writers::hows(i));
    }
}

pub fn floor_c14(ctx: &Ctx) -> Vec<(String, bool)> {
    let all = ctx.all_classes();
    [
        "c14:members=0",
        "c14:members=1",
        "c14:members=>=5",
        "c14:padding-on-first",
        "c14:padding-on-middle",
        "c14:padding-on-last",
        "c14:nested-last",
        "c14:nested-non-last",
        "c14:invalid-member-first",
        "c14:invalid-member-middle",
        "c14:invalid-member-last",
        "c14:accepted",
        "c14:rejected",
    ]
    .iter()
    .map(|c| (c.to_string(), all.contains_key(*c)))
    .collect()
}

// ================================================================== C20

/// Build `cfg` through construction history number `h` (0 = canonical).
/// Returns `(calculate_size, bytes)`.
fn build_with_history(cfg: &Cfg, h: u64) -> (WOut, Option<Vec<u8>>) {
    let mut s = Src::prng(mix(hash_of(cfg), h));
    let canonical = h == 0;
    macro_rules! finish {
        ($b:expr) => {{
            let b = $b;
            // final wrapping choice
            match if canonical { 0 } else { s.below(3) } {
                1 => fin(&DynW(&PacketBuilder::from(b))),
                2 => fin(&DynW(&Compound::builder().add_packet(b))),
                _ => fin(&DynW(&b)),
            }
        }};
    }
    fn fin(w: &DynW) -> (WOut, Option<Vec<u8>>) {
        let r = calc(w);
        if let WOut::Ok(n) = &r {
            if *n > (1 << 22) {
                return (r, None);
            }
            // zeroed (not dirty) buffers: a byte a member leaves unwritten is C17's / C07's finding and must not
            // look like a difference between two images of the same member at different offsets / histories
            let mut buf = vec![0u8; *n];
            match write(w, &mut buf) {
                WOut::Ok(m) if m == *n => (r, Some(buf)),
                other => (other, None),
            }
        } else {
            (r, None)
        }
    }
    match cfg {
        Cfg::Sr { ssrc, ntp, rtp, pc, oc, blocks, padding } => {
            let mut b = SenderReport::builder(*ssrc);
            // independent setters in a random order, some preceded by a junk value; blocks interleaved
            let mut ops: Vec<u8> = vec![0, 1, 2, 3, 4];
            if !canonical {
                s.shuffle(&mut ops);
            }
            let mut bi = 0;
            for op in ops {
                if !canonical {
                    while bi < blocks.len() && s.chance(1, 2) {
                        b = b.add_report_block(mk_rb_hist(&blocks[bi], &mut s, canonical));
                        bi += 1;
                    }
                }
                let junk = !canonical && s.chance(1, 2);
                b = match op {
                    0 => {
                        if junk {
                            b = b.padding(s.u8());
                        }
                        b.padding(*padding)
                    }
                    1 => {
                        if junk {
                            b = b.ntp_timestamp(s.u64());
                        }
                        b.ntp_timestamp(*ntp)
                    }
                    2 => {
                        if junk {
                            b = b.rtp_timestamp(s.u32());
                        }
                        b.rtp_timestamp(*rtp)
                    }
                    3 => {
                        if junk {
                            b = b.packet_count(s.u32());
                        }
                        b.packet_count(*pc)
                    }
                    _ => {
                        if junk {
                            b = b.octet_count(s.u32());
                        }
                        b.octet_count(*oc)
                    }
                };
            }
            while bi < blocks.len() {
                b = b.add_report_block(mk_rb_hist(&blocks[bi], &mut s, canonical));
                bi += 1;
            }
            finish!(b)
        }
        Cfg::Rr { ssrc, blocks, padding } => {
            let mut b = ReceiverReport::builder(*ssrc);
            let pad_at = if canonical { 0 } else { s.below(blocks.len() + 1) };
            for (i, rb) in blocks.iter().enumerate() {
                if i == pad_at {
                    if !canonical && s.chance(1, 2) {
                        b = b.padding(s.u8());
                    }
                    b = b.padding(*padding);
                }
                b = b.add_report_block(mk_rb_hist(rb, &mut s, canonical));
            }
            if pad_at >= blocks.len() {
                b = b.padding(*padding);
            }
            finish!(b)
        }
        Cfg::Bye { sources, reason, padding } => {
            // position of the reason call and of the padding call among the add_source calls
            let n = sources.len();
            let (r_at, p_at, owned, junk) =
                if canonical { (n, 0, false, false) } else { (s.below(n + 1), s.below(n + 1), s.chance(1, 2), s.chance(1, 2)) };
            // the builder's type changes with reason_owned: drive both phases explicitly
            let mut b = Bye::builder();
            let mut i = 0;
            let mut pad_done = false;
            while i < r_at {
                if i == p_at {
                    b = b.padding(*padding);
                    pad_done = true;
                }
                b = b.add_source(sources[i]);
                i += 1;
            }
            if junk {
                b = b.reason("junk reason that must be overwritten");
            }
            if owned {
                // (sometimes twice: owned junk first, then the real reason)
                let mut o: ByeBuilder<'static> = if junk && !canonical && s.chance(1, 2) {
                    b.reason_owned("an owned junk reason that must be overwritten").reason_owned(reason.as_str())
                } else {
                    b.reason_owned(reason.as_str())
                };
                while i < n {
                    if i == p_at && !pad_done {
                        o = o.padding(*padding);
                        pad_done = true;
                    }
                    o = o.add_source(sources[i]);
                    i += 1;
                }
                if !pad_done {
                    o = o.padding(*padding);
                }
                finish!(o)
            } else {
                // canonical history never calls reason() for an empty reason; others may set "" explicitly
                if !reason.is_empty() || junk || (!canonical && s.chance(1, 2)) {
                    b = b.reason(reason.as_str());
                }
                while i < n {
                    if i == p_at && !pad_done {
                        b = b.padding(*padding);
                        pad_done = true;
                    }
                    b = b.add_source(sources[i]);
                    i += 1;
                }
                if !pad_done {
                    b = b.padding(*padding);
                }
                finish!(b)
            }
        }
        Cfg::App { ssrc, subtype, name, data, padding } => {
            let mut b = App::builder(*ssrc, name.as_str());
            let mut ops: Vec<u8> = vec![0, 1, 2];
            if !canonical {
                s.shuffle(&mut ops);
            }
            let junk_data = [9u8; 8];
            for op in ops {
                let junk = !canonical && s.chance(1, 2);
                b = match op {
                    0 => {
                        if junk {
                            b = b.padding(s.u8());
                        }
                        b.padding(*padding)
                    }
                    1 => {
                        if junk {
                            b = b.subtype(s.u8());
                        }
                        b.subtype(*subtype)
                    }
                    _ => {
                        if junk {
                            b = b.data(&junk_data);
                        }
                        b.data(data)
                    }
                };
            }
            finish!(b)
        }
        Cfg::Unknown { pt, count, data, padding } => {
            let mut b = Unknown::builder(*pt, data);
            let first_pad = canonical || s.chance(1, 2);
            for k in 0..2 {
                let junk = !canonical && s.chance(1, 2);
                if (k == 0) == first_pad {
                    if junk {
                        b = b.padding(s.u8());
                    }
                    b = b.padding(*padding);
                } else {
                    if junk {
                        b = b.count(s.u8());
                    }
                    b = b.count(*count);
                }
            }
            finish!(b)
        }
        Cfg::Sdes { chunks, padding } => {
            let mut b = Sdes::builder();
            let p_at = if canonical { 0 } else { s.below(chunks.len() + 1) };
            for (i, c) in chunks.iter().enumerate() {
                if i == p_at {
                    if !canonical && s.chance(1, 2) {
                        b = b.padding(s.u8());
                    }
                    b = b.padding(*padding);
                }
                let mut cb = SdesChunk::builder(c.ssrc);
                for it in &c.items {
                    let route = if canonical { 0 } else { s.below(5) };
                    let base = SdesItem::builder(it.type_, it.value.as_str());
                    cb = match route {
                        // borrowed, prefix (when any) set directly
                        0 => cb.add_item(if it.prefix.is_empty() { base } else { base.prefix(&it.prefix[..]) }),
                        // junk prefix first, then the real one
                        1 => cb.add_item(base.prefix(&JUNK_PREFIX[..]).prefix(&it.prefix[..])),
                        // into_owned AFTER the prefix
                        2 => cb.add_item(base.prefix(&it.prefix[..]).into_owned()),
                        // into_owned BEFORE the prefix
                        3 => cb.add_item(base.into_owned().prefix(it.prefix.clone())),
                        // add_item_owned
                        _ => cb.add_item_owned(base.prefix(&it.prefix[..])),
                    };
                }
                b = b.add_chunk(cb);
            }
            if p_at >= chunks.len() {
                b = b.padding(*padding);
            }
            finish!(b)
        }
        Cfg::Fb { kind, sender, media, fci, padding } => {
            // FCI construction history
            let junk_bits = [0xeeu8; 5];
            let fb: drive::FciB = match fci {
                Fci::Nack(l) => {
                    let mut v = l.clone();
                    if !canonical {
                        s.shuffle(&mut v);
                        let extra: Vec<u16> = v.iter().copied().filter(|_| s.chance(1, 3)).collect();
                        v.extend(extra); // re-adding is idempotent
                    }
                    drive::FciB::Nack(drive::mk_nack(&v))
                }
                Fci::Pli => drive::FciB::Pli(Pli::builder()),
                Fci::Sli(l) => drive::FciB::Sli(drive::mk_sli(l)),
                Fci::Fir(l) => {
                    let mut v = vec![];
                    if !canonical {
                        // earlier sequences for some SSRCs, then the real list (last sequence wins)
                        for e in l.iter() {
                            if s.chance(1, 3) {
                                v.push((e.0, s.u8()));
                            }
                        }
                    }
                    v.extend_from_slice(l);
                    drive::FciB::Fir(drive::mk_fir(&v))
                }
                Fci::Rpsi { pt, bits, overrun } => {
                    let route = if canonical { 0 } else { s.below(9) };
                    let r = Rpsi::builder();
                    drive::FciB::Rpsi(match route {
                        // a repeated setter keeps the last value, for every ordered pair of the setter's variants
                        5 => r.payload_type(*pt).native_data_owned(junk_bits.to_vec(), 1).native_data_owned(&bits[..], *overrun),
                        6 => r.native_data_owned(junk_bits.to_vec(), 1).native_data(&bits[..], *overrun).payload_type(*pt),
                        7 => r.payload_type(*pt).native_data(&junk_bits[..], 1).native_data_owned(bits.clone(), *overrun),
                        8 => r.native_data_owned(&junk_bits[..], 1).payload_type(*pt).native_data_owned(bits.clone(), *overrun),
                        0 => r.payload_type(*pt).native_data(&bits[..], *overrun),
                        1 => r.native_data(&bits[..], *overrun).payload_type(*pt),
                        // owned AFTER payload_type: must keep the payload type
                        2 => r.payload_type(*pt).native_data_owned(&bits[..], *overrun),
                        // owned BEFORE payload_type
                        3 => r.native_data_owned(bits.clone(), *overrun).payload_type(*pt),
                        // junk first
                        _ => r.payload_type(s.u8() & 0x7f).native_data(&junk_bits[..], 1).native_data(&bits[..], *overrun).payload_type(*pt),
                    })
                }
            };
            let owned = !canonical && s.chance(1, 2);
            let mut ops: Vec<u8> = vec![0, 1, 2];
            if !canonical {
                s.shuffle(&mut ops);
            }
            macro_rules! setters {
                ($b:expr) => {{
                    let mut b = $b;
                    for op in &ops {
                        let junk = !canonical && s.chance(1, 2);
                        b = match op {
                            0 => {
                                if junk {
                                    b = b.padding(s.u8());
                                }
                                b.padding(*padding)
                            }
                            1 => {
                                if junk {
                                    b = b.sender_ssrc(s.u32());
                                }
                                b.sender_ssrc(*sender)
                            }
                            _ => {
                                if junk {
                                    b = b.media_ssrc(s.u32());
                                }
                                b.media_ssrc(*media)
                            }
                        };
                    }
                    b
                }};
            }
            if owned {
                macro_rules! own {
                    ($ctor:path) => {
                        match fci {
                            Fci::Nack(l) => $ctor(drive::mk_nack(l)),
                            Fci::Pli => $ctor(Pli::builder()),
                            Fci::Sli(l) => $ctor(drive::mk_sli(l)),
                            Fci::Fir(l) => $ctor(drive::mk_fir(l)),
                            Fci::Rpsi { pt, bits, overrun } => $ctor(drive::mk_rpsi_owned(*pt, bits, *overrun)),
                        }
                    };
                }
                match kind {
                    FbKind::Transport => finish!(setters!(own!(TransportFeedback::builder_owned))),
                    FbKind::Payload => finish!(setters!(own!(PayloadFeedback::builder_owned))),
                }
            } else {
                match kind {
                    FbKind::Transport => finish!(setters!(TransportFeedback::builder(fb.as_dyn()))),
                    FbKind::Payload => finish!(setters!(PayloadFeedback::builder(fb.as_dyn()))),
                }
            }
        }
        Cfg::Custom { .. } | Cfg::Compound(_) => with_writer(cfg, How::default(), |w| fin(w)),
    }
}

fn mk_rb_hist(b: &Rb, s: &mut Src, canonical: bool) -> ReportBlockBuilder {
    let mut r = ReportBlock::builder(b.ssrc);
    let mut ops: Vec<u8> = vec![0, 1, 2, 3, 4, 5];
    if !canonical {
        s.shuffle(&mut ops);
    }
    for op in ops {
        let junk = !canonical && s.chance(1, 4);
        r = match op {
            0 => {
                if junk {
                    r = r.fraction_lost(s.u8());
                }
                r.fraction_lost(b.fraction)
            }
            1 => {
                if junk {
                    r = r.cumulative_lost(s.u32());
                }
                r.cumulative_lost(b.cumulative)
            }
            2 => {
                if junk {
                    r = r.extended_sequence_number(s.u32());
                }
                r.extended_sequence_number(b.ext_seq)
            }
            3 => {
                if junk {
                    r = r.interarrival_jitter(s.u32());
                }
                r.interarrival_jitter(b.jitter)
            }
            4 => {
                if junk {
                    r = r.last_sender_report_timestamp(s.u32());
                }
                r.last_sender_report_timestamp(b.lsr)
            }
            _ => {
                if junk {
                    r = r.delay_since_last_sender_report_timestamp(s.u32());
                }
                r.delay_since_last_sender_report_timestamp(b.dlsr)
            }
        };
    }
    r
}

/// FIR entries may come out in any order: sort them before comparing histories.
fn canon_fir(cfg: &Cfg, mut b: Vec<u8>) -> Vec<u8> {
    if cfg.is_compound() {
        return crate::mon::writers::canon(&b);
    }
    if let Cfg::Fb { fci: Fci::Fir(_), padding, .. } = cfg {
        let pad = *padding as usize;
        if b.len() >= 12 + pad && (b.len() - 12 - pad) % 8 == 0 {
            let end = b.len() - pad;
            let mut e: Vec<Vec<u8>> = b[12..end].chunks(8).map(|c| c.to_vec()).collect();
            e.sort();
            let flat: Vec<u8> = e.concat();
            b[12..end].copy_from_slice(&flat);
        }
    }
    b
}

pub const C20_HISTORIES: u64 = 7;
static JUNK_PREFIX: [u8; 3] = [0x55; 3];

pub fn check_c20(ctx: &mut Ctx, cfg: &Cfg) {
    let _case = crate::watchdog::case_cfg("c20", cfg, How::default());
    ctx.eval();
    let kind = cfg.kind_name();
    let base = match call(|| build_with_history(cfg, 0)) {
        Ok(b) => b,
        Err(p) => {
            ctx.violate("history-panics", kind, "canonical", || cfg_case("c20", cfg, How::default()), "builder methods return", format!("panic at {}: {}", short_site(&p.site), p.msg));
            return;
        }
    };
    if matches!(base.0, WOut::Panic(_)) {
        // a panicking writer is C06's finding; histories cannot be compared
        ctx.class("c20:skipped:canonical-write-panics");
        return;
    }
    let base_bytes = base.1.clone().map(|b| canon_fir(cfg, b));
    ctx.class_dyn(format!("c20:{kind}:{}", if base_bytes.is_some() { "ok" } else { "err" }));
    for h in 1..C20_HISTORIES {
        let got = match call(|| build_with_history(cfg, h)) {
            Ok(g) => g,
            Err(p) => {
                ctx.violate("history-panics", kind, "variant", || cfg_case("c20", cfg, How::default()).set("history", h), "builder methods return", format!("panic at {}: {}", short_site(&p.site), p.msg));
                return;
            }
        };
        let gb = got.1.clone().map(|b| canon_fir(cfg, b));
        // a one-member compound reports member errors unchanged, so results must be equal too
        if got.0 != base.0 || gb != base_bytes {
            let what = if got.0 != base.0 { "size-or-error" } else { "bytes" };
            ctx.violate(
                "history-independent",
                kind,
                what,
                || cfg_case("c20", cfg, How::default()).set("history", h),
                format!("canonical history: {} {}", base.0.render(), base_bytes.as_ref().map(|b| hex(&b[..b.len().min(80)])).unwrap_or_default()),
                format!("history {h}: {} {}", got.0.render(), gb.as_ref().map(|b| hex(&b[..b.len().min(80)])).unwrap_or_default()),
            );
            return;
        }
    }
    // the sixteen construction routes of `drive` (borrowed / owned variants x plain / PacketBuilder-wrapped x
    // direct / probing with observers between the setters of the builder *and of its sub-builders* x fresh /
    // re-configured after a first complete write) are
    // further "histories" reaching the same final configuration
    {
        let route = |h: usize| -> (WOut, Option<Vec<u8>>) {
            let how = crate::mon::writers::hows(h);
            with_writer(cfg, how, |w| {
                let r = calc(w);
                if let WOut::Ok(n) = &r {
                    if *n > (1 << 22) {
                        return (r, None);
                    }
                    let mut buf = vec![0u8; *n];
                    match write(w, &mut buf) {
                        WOut::Ok(m) if m == *n => (r, Some(buf)),
                        other => (other, None),
                    }
                } else {
                    (r, None)
                }
            })
        };
        let first = route(0);
        if !matches!(first.0, WOut::Panic(_)) {
            let fb = first.1.clone().map(|b| canon_fir(cfg, b));
            for h in 1..crate::drive::ROUTES {
                let got = route(h);
                let gb = got.1.clone().map(|b| canon_fir(cfg, b));
                if got.0 != first.0 || gb != fb {
                    let how = crate::mon::writers::hows(h);
                    ctx.violate(
                        "history-independent",
                        kind,
                        if got.0 != first.0 { "route:size-or-error" } else { "route:bytes" },
                        || cfg_case("c20", cfg, how),
                        format!("plain borrowed route: {} {}", first.0.render(), fb.as_ref().map(|b| hex(&b[..b.len().min(80)])).unwrap_or_default()),
                        format!("route owned={} wrapped={} probing={} reconfigured={}: {} {}", how.owned, how.wrap, how.probe, how.reconf, got.0.render(), gb.as_ref().map(|b| hex(&b[..b.len().min(80)])).unwrap_or_default()),
                    );
                    return;
                }
            }
            ctx.class("c20:routes-compared");
            // "a one-member compound produces the same bytes as its counterpart", also where the counterpart is a
            // member of a compound: every member wrapped in a compound of its own
            if let Cfg::Compound(members) = cfg {
                if !members.is_empty() {
                    let wrapped = Cfg::Compound(members.iter().map(|m| Cfg::Compound(vec![m.clone()])).collect());
                    let got = with_writer(&wrapped, How::default(), |w| {
                        let r = calc(w);
                        if let WOut::Ok(n) = &r {
                            if *n > (1 << 22) {
                                return (r, None);
                            }
                            let mut buf = vec![0u8; *n];
                            match write(w, &mut buf) {
                                WOut::Ok(m) if m == *n => (r, Some(buf)),
                                other => (other, None),
                            }
                        } else {
                            (r, None)
                        }
                    });
                    let gb = got.1.clone().map(|b| canon_fir(cfg, b));
                    if got.0 != first.0 || gb != fb {
                        ctx.violate(
                            "history-independent",
                            kind,
                            if got.0 != first.0 { "members-wrapped-in-compounds:size-or-error" } else { "members-wrapped-in-compounds:bytes" },
                            || cfg_case("c20", cfg, How::default()),
                            format!("members added directly: {} {}", first.0.render(), fb.as_ref().map(|b| hex(&b[..b.len().min(80)])).unwrap_or_default()),
                            format!("each member wrapped in a one-member compound: {} {}", got.0.render(), gb.as_ref().map(|b| hex(&b[..b.len().min(80)])).unwrap_or_default()),
                        );
                        return;
                    }
                    ctx.class("c20:members-wrapped-compared");
                }
            }
        }
    }
    // list-adding calls preserve insertion order: if the image differs from the model's but equals
    // the model's image of a re-ordered list, the order was not preserved
    if let (Some(b), true) = (&base.1, repr::violations(cfg).is_empty()) {
        let m = enc::enc_unchecked(cfg);
        if canon_fir(cfg, m.clone()) != canon_fir(cfg, b.clone()) {
            for alt in reorderings(cfg) {
                if enc::enc_unchecked(&alt) == *b {
                    ctx.violate(
                        "insertion-order",
                        kind,
                        "list-order",
                        || cfg_case("c20", cfg, How::default()),
                        "list-adding calls preserve insertion order",
                        format!("the written image is that of the re-ordered configuration {}", alt.shape()),
                    );
                    break;
                }
            }
        }
    }
    // list-adding calls append: the image of the list without its last entry (or with only its first)
    // is a prefix of the image of the whole list (model-free; insertion-ordered lists only - NACK numbers
    // are a sorted set and FIR entries a map, so they are not included)
    if let Some(full) = &base.1 {
        for (shorter, tail) in list_prefixes(cfg) {
            let Ok((WOut::Ok(_), Some(a))) = call(|| build_with_history(&shorter, 0)) else { continue };
            let upto = a.len().saturating_sub(tail);
            if upto <= 4 {
                continue;
            }
            ctx.class("c20:append-prefix-checked");
            if full.len() < upto || a[4..upto] != full[4..upto] {
                ctx.violate(
                    "insertion-order",
                    kind,
                    "append-is-prefix",
                    || cfg_case("c20", cfg, How::default()),
                    format!("adding entries leaves the earlier ones where they were: bytes 4..{upto} of {} stay", hex(&a[..a.len().min(64)])),
                    format!("the longer list is written as {}", hex(&full[..full.len().min(64)])),
                );
                break;
            }
        }
    }
    ctx.nontrivial(hash_of(cfg));
    ctx.sample_sparse(10_007, || J::obj().set("cfg", cfg.shape()).set("histories", C20_HISTORIES));
}

/// Shorter versions of an insertion-ordered list configuration (padding removed, nothing after the
/// list), each with the number of bytes at the end of the *shorter* image that do not belong to the
/// list (terminator and fill of an SDES chunk).
fn list_prefixes(cfg: &Cfg) -> Vec<(Cfg, usize)> {
    fn cuts(n: usize) -> Vec<usize> {
        let mut v = vec![];
        if n >= 2 {
            v.push(n - 1);
            if n > 2 {
                v.push(1);
            }
        }
        v
    }
    let mut out = vec![];
    match cfg {
        Cfg::Sr { ssrc, ntp, rtp, pc, oc, blocks, padding: 0 } => {
            for k in cuts(blocks.len()) {
                out.push((Cfg::Sr { ssrc: *ssrc, ntp: *ntp, rtp: *rtp, pc: *pc, oc: *oc, blocks: blocks[..k].to_vec(), padding: 0 }, 0));
            }
        }
        Cfg::Rr { ssrc, blocks, padding: 0 } => {
            for k in cuts(blocks.len()) {
                out.push((Cfg::Rr { ssrc: *ssrc, blocks: blocks[..k].to_vec(), padding: 0 }, 0));
            }
        }
        Cfg::Bye { sources, reason, padding: 0 } if reason.is_empty() => {
            for k in cuts(sources.len()) {
                out.push((Cfg::Bye { sources: sources[..k].to_vec(), reason: String::new(), padding: 0 }, 0));
            }
        }
        Cfg::Fb { kind, sender, media, fci: Fci::Sli(l), padding: 0 } => {
            for k in cuts(l.len()) {
                out.push((Cfg::Fb { kind: *kind, sender: *sender, media: *media, fci: Fci::Sli(l[..k].to_vec()), padding: 0 }, 0));
            }
        }
        Cfg::Sdes { chunks, padding: 0 } => {
            for k in cuts(chunks.len()) {
                out.push((Cfg::Sdes { chunks: chunks[..k].to_vec(), padding: 0 }, 0));
            }
            // items of the last chunk (whatever precedes it)
            if let Some((last, before)) = chunks.split_last() {
                let item_size = |i: &Item| 2 + i.value.len() + if i.type_ == 8 { 1 + i.prefix.len() } else { 0 };
                let chunk_len = |c: &Chunk| (4 + c.items.iter().map(item_size).sum::<usize>() + 1 + 3) / 4 * 4;
                let head: usize = 4 + before.iter().map(chunk_len).sum::<usize>();
                for k in cuts(last.items.len()) {
                    let items = last.items[..k].to_vec();
                    // bytes of the shorter image after its last item: terminator + fill of the last chunk
                    let used: usize = head + 4 + items.iter().map(item_size).sum::<usize>();
                    let total = (used + 1 + 3) / 4 * 4;
                    let mut cs = before.to_vec();
                    cs.push(Chunk { ssrc: last.ssrc, items });
                    out.push((Cfg::Sdes { chunks: cs, padding: 0 }, total - used));
                }
            }
        }
        _ => {}
    }
    out
}

fn reorderings(cfg: &Cfg) -> Vec<Cfg> {
    let mut out = vec![];
    let mut push = |c: Cfg| {
        if c != *cfg {
            out.push(c)
        }
    };
    match cfg {
        Cfg::Sr { blocks, .. } | Cfg::Rr { blocks, .. } => {
            let mut r = blocks.clone();
            r.reverse();
            let mut c = cfg.clone();
            match &mut c {
                Cfg::Sr { blocks, .. } | Cfg::Rr { blocks, .. } => *blocks = r,
                _ => {}
            }
            push(c);
        }
        Cfg::Bye { sources, reason, padding } => {
            let mut r = sources.clone();
            r.reverse();
            push(Cfg::Bye { sources: r, reason: reason.clone(), padding: *padding });
            let mut srt = sources.clone();
            srt.sort_unstable();
            push(Cfg::Bye { sources: srt, reason: reason.clone(), padding: *padding });
        }
        Cfg::Sdes { chunks, padding } => {
            let mut r = chunks.clone();
            r.reverse();
            push(Cfg::Sdes { chunks: r, padding: *padding });
            let mut ir = chunks.clone();
            for c in &mut ir {
                c.items.reverse();
            }
            push(Cfg::Sdes { chunks: ir, padding: *padding });
        }
        Cfg::Fb { kind, sender, media, fci: Fci::Sli(l), padding } => {
            let mut r = l.clone();
            r.reverse();
            push(Cfg::Fb { kind: *kind, sender: *sender, media: *media, fci: Fci::Sli(r), padding: *padding });
            let mut srt = l.clone();
            srt.sort_unstable();
            push(Cfg::Fb { kind: *kind, sender: *sender, media: *media, fci: Fci::Sli(srt), padding: *padding });
        }
        _ => {}
    }
    out
}

pub fn run_c20(ctx: &mut Ctx, shard: usize, nshards: usize) {
    let mut f = |ctx: &mut Ctx, c: &Cfg, _h: How| check_c20(ctx, c);
    crate::mon::writers::workload(ctx, shard, nshards, 0xc20, false, 20_000, 500_000, &mut f);
}

pub fn floor_c20(ctx: &Ctx) -> Vec<(String, bool)> {
    let all = ctx.all_classes();
    cfgs::VALID_KINDS
        .iter()
        .filter(|k| **k != "compound" && **k != "custom")
        .map(|k| {
            let c = format!("c20:{k}:ok");
            (c.clone(), all.contains_key(&c) || !ctx.violation_counts.is_empty())
        })
        .collect()
}

// ================================================================== C19

use rtcp_types::utils::{parser, writer};

/// (i) contracts of the three public writer helpers on one parameter tuple
pub fn check_c19_helpers(ctx: &mut Ctx, pt: u8, min: usize, padding: u8, count: u8, buf_len: usize) {
    ctx.eval();
    let case = || {
        J::obj()
            .set("kind", "helper")
            .set("monitor", "c19-helpers")
            .set("pt", pt)
            .set("min", min)
            .set("padding", padding)
            .set("count", count)
            .set("buf_len", buf_len)
    };
    // check_padding
    match call(|| writer::check_padding(padding)) {
        Ok(r) => {
            let ok = match &r {
                Ok(()) => padding % 4 == 0,
                Err(RtcpWriteError::InvalidPadding { padding: p }) => padding % 4 != 0 && *p == padding,
                Err(_) => false,
            };
            if !ok {
                ctx.violate("check_padding", "helper", "result", case, format!("Ok iff {padding} % 4 == 0, else InvalidPadding{{padding:{padding}}}"), format!("{r:?}"));
            }
            ctx.class(if r.is_ok() { "c19:check_padding:ok" } else { "c19:check_padding:err" });
        }
        Err(p) => ctx.violate("check_padding", "helper", "panic", case, "returns", p.msg),
    }
    if buf_len < 4 || buf_len % 4 != 0 || count > 31 {
        return;
    }
    // write_header_unchecked::<Custom<PT,MIN>>
    for fill in [0x00u8, 0xff, 0x5a] {
        let mut buf = vec![fill; buf_len];
        let r = crate::with_custom!(pt, min, C, B, call(|| writer::write_header_unchecked::<C>(padding, count, &mut buf)));
        let Some(r) = r else { return };
        match r {
            Err(p) => {
                ctx.violate("write_header", "helper", "panic", case, "returns 4", p.msg);
                return;
            }
            Ok(n) => {
                let words = buf_len / 4 - 1;
                let exp = [0x80 | if padding > 0 { 0x20 } else { 0 } | count, pt, (words >> 8) as u8, words as u8];
                if n != 4 || buf[..4] != exp || buf[4..].iter().any(|&b| b != fill) {
                    ctx.violate(
                        "write_header",
                        "helper",
                        if n != 4 { "return" } else if buf[..4] != exp { "header-bytes" } else { "touches-body" },
                        case,
                        format!("returns 4, header {} and nothing else touched", hex(&exp)),
                        format!("returns {n}, buffer {}", hex(&buf[..buf_len.min(24)])),
                    );
                    return;
                }
            }
        }
        // write_padding_unchecked
        if (padding as usize) <= buf_len {
            let mut buf = vec![fill; buf_len];
            match call(|| writer::write_padding_unchecked(padding, &mut buf)) {
                Err(p) => {
                    ctx.violate("write_padding", "helper", "panic", case, format!("returns {padding}"), p.msg);
                    return;
                }
                Ok(n) => {
                    let p = padding as usize;
                    let mut exp = vec![fill; buf_len];
                    if p > 0 {
                        for b in &mut exp[..p - 1] {
                            *b = 0;
                        }
                        exp[p - 1] = padding;
                    }
                    if n != p || buf != exp {
                        ctx.violate(
                            "write_padding",
                            "helper",
                            if n != p { "return" } else { "trailer-bytes" },
                            case,
                            format!("returns {p}; writes {} zeros then {padding}; nothing else touched", p.saturating_sub(1)),
                            format!("returns {n}, buffer {}", hex(&buf[..buf_len.min(40)])),
                        );
                        return;
                    }
                }
            }
        }
    }
    // third-party types that override the defaulted MAX_COUNT constant (a maximum, not a mask): every legal count
    // of such a type comes out in the header as it went in, and the type's own parser reads it back
    if pt == 207 && min == 4 && padding % 4 == 0 && (padding as usize) + 4 <= buf_len {
        for mc in [4u8, 10, 16, 30] {
            if count > mc {
                continue;
            }
            let mut buf = vec![0xc3u8; buf_len];
            match call(|| crate::custom::odd_header(mc, padding, count, &mut buf)) {
                Err(p) => {
                    ctx.violate("write_header", "helper", "max-count-override:panic", case, "returns 4", p.msg);
                    return;
                }
                Ok(None) => {}
                Ok(Some((n, back))) => {
                    let words = buf_len / 4 - 1;
                    let exp = [0x80 | if padding > 0 { 0x20 } else { 0 } | count, crate::custom::ODD_PT, (words >> 8) as u8, words as u8];
                    if n != 4 || buf[..4] != exp || back != Ok(count) {
                        ctx.violate(
                            "write_header",
                            "helper",
                            "max-count-override",
                            case,
                            format!("a type with MAX_COUNT = {mc}: returns 4, header {}, its parser reads count {count} back", hex(&exp)),
                            format!("returns {n}, header {}, parsed count {back:?}", hex(&buf[..4])),
                        );
                        return;
                    }
                    ctx.class("c19:helpers:max-count-override");
                }
            }
        }
    }
    ctx.class("c19:helpers:checked");
    ctx.nontrivial(hash_of(&(pt, min, padding, count, buf_len)));
}

/// (ii)+(iii) unknown-builder and third-party packets: image, generic parse, compounds, conversion back
pub fn check_c19_cfg(ctx: &mut Ctx, cfg: &Cfg, how: How) {
    let _case = crate::watchdog::case_cfg("c19-cfg", cfg, how);
    if !repr::violations(cfg).is_empty() {
        return;
    }
    ctx.eval();
    let kind = cfg.kind_name();
    let case = || cfg_case("c19-cfg", cfg, how);
    // nested compounds flatten: a compound has no header of its own
    fn flatten<'c>(c: &'c Cfg, out: &mut Vec<&'c Cfg>) {
        match c {
            Cfg::Compound(m) => m.iter().for_each(|x| flatten(x, out)),
            leaf => out.push(leaf),
        }
    }
    let mut leafs: Vec<&Cfg> = vec![];
    flatten(cfg, &mut leafs);
    let foreign = |c: &Cfg| matches!(c, Cfg::Unknown { .. } | Cfg::Custom { .. });
    // What the bytes must be. Unknown / third-party members: the model's image. Built-in members of a mixed
    // compound are *not this property's business*: their reference is whatever the crate writes for them on
    // their own (into a zeroed buffer); if a built-in member cannot even be written on its own, the case says
    // nothing about third-party interoperability and is skipped.
    let mixed = cfg.is_compound() && leafs.iter().any(|l| !foreign(l));
    let mut model: Vec<u8> = vec![];
    let mut bounds: Vec<(usize, usize)> = vec![];
    for leaf in &leafs {
        let img = if foreign(leaf) {
            enc::enc_unchecked(leaf)
        } else {
            match drive::build_bytes_zeroed(leaf, how) {
                Ok(b) => b,
                Err(_) => {
                    ctx.class("c19:other-property:built-in-member-not-writable-alone");
                    return;
                }
            }
        };
        bounds.push((model.len(), model.len() + img.len()));
        model.extend_from_slice(&img);
    }
    let built = if mixed { drive::build_bytes_zeroed(cfg, how) } else { build_bytes(cfg, how) };
    let bytes = match built {
        Ok(b) => b,
        Err(e) => {
            ctx.violate("build", kind, &e.class(), case, "a representable unknown / third-party configuration is written (alone or embedded in a compound whose other members are writable)", e.render());
            return;
        }
    };
    if bytes != model && crate::mon::writers::canon_fir_only(&bytes) != crate::mon::writers::canon_fir_only(&model) {
        let d = bytes.iter().zip(&model).position(|(a, b)| a != b).unwrap_or(bytes.len().min(model.len()));
        ctx.violate(
            "image",
            kind,
            if d < 4 { "header" } else if d >= model.len().saturating_sub(cfg.padding() as usize) { "padding-trailer" } else { "body" },
            case,
            format!("header + payload + padding trailer (built-in members: as written on their own): {}", hex(&model[..model.len().min(64)])),
            format!("{} (first difference at {d})", hex(&bytes[..bytes.len().min(64)])),
        );
        return;
    }
    ctx.class_dyn(format!("c19:{kind}:{}:{}", if cfg.padding() > 0 { "padded" } else { "unpadded" }, if dec::count(&bytes) > 0 { "count>0" } else { "count=0" }));
    // each unknown / third-party leaf: the generic parser gives Unknown exposing the exact bytes; converts back.
    // Tiles are the members' own extents (not re-derived from length fields a built-in member may have got wrong).
    let data = drive::exact(&bytes);
    let tiles = bounds;
    // does every built-in member's tile parse on its own? (if not, iteration rightly stops there: C11 / the
    // member's own property, not this one)
    let builtins_parse = leafs
        .iter()
        .zip(&tiles)
        .all(|(l, (a, b))| (foreign(l) && !(200..=206).contains(&data[*a + 1])) || matches!(call(|| Packet::parse(&data[*a..*b]).is_ok()), Ok(true)));
    // iterate as compound as well
    let via_compound: Option<Result<Vec<String>, String>> = if !builtins_parse {
        ctx.class("c19:other-property:built-in-member-does-not-parse");
        None
    } else {
        Some(match call(|| Compound::parse(&data).map(|c| c.map(|r| format!("{r:?}")).collect::<Vec<_>>())) {
            Ok(Ok(v)) => Ok(v),
            Ok(Err(e)) => Err(format!("{e:?}")),
            Err(p) => Err(format!("panic: {}", p.msg)),
        })
    };
    for (i, (leaf, (a, b))) in leafs.iter().zip(&tiles).enumerate() {
        let tile = &data[*a..*b];
        let pt = tile[1];
        if !foreign(leaf) || (200..=206).contains(&pt) {
            continue; // built-in member of a mixed compound, or a raw packet carrying a built-in type number
        }
        let r = call(|| {
            let p = Packet::parse(tile).map_err(|e| format!("Packet::parse fails: {e:?}"))?;
            let dbg = format!("{:?}", Ok::<&Packet, RtcpParseError>(&p));
            let Packet::Unknown(u) = &p else { return Err(format!("Packet::parse gives {} for type {pt}", crate::obs::packet_variant(&p))) };
            if u.data().as_ptr() != tile.as_ptr() || u.data().len() != tile.len() {
                return Err("Unknown::data() is not the input".to_string());
            }
            if let Cfg::Custom { pt: cpt, min, count, body, padding } = leaf {
                let conv = crate::with_custom!(*cpt, *min, C, B, {
                    let via_packet = p.try_as::<C>().map_err(|e| format!("Packet::try_as::<Custom> fails: {e:?}"))?;
                    let via_unknown = u.try_as::<C>().map_err(|e| format!("Unknown::try_as::<Custom> fails: {e:?}"))?;
                    if via_packet != via_unknown {
                        return Err("conversions through Packet and Unknown differ".to_string());
                    }
                    let c = via_packet;
                    if c.count() != *count || c.type_() != *cpt || c.body() != &body[..] || c.padding() != if *padding == 0 { None } else { Some(*padding) } || c.length() != tile.len() {
                        return Err(format!(
                            "converted packet misreports a field: count {} type {} body {} padding {:?}",
                            c.count(),
                            c.type_(),
                            hex(&c.body()[..c.body().len().min(64)]),
                            c.padding()
                        ));
                    }
                    Ok::<(), String>(())
                });
                if let Some(r) = conv {
                    r?;
                }
            }
            Ok(dbg)
        });
        match r {
            Err(p) => {
                ctx.violate("parse-back", kind, "panic", case, "generic parse and conversion return", format!("member {i}: panic at {}: {}", short_site(&p.site), p.msg));
                return;
            }
            Ok(Err(why)) => {
                ctx.violate("parse-back", kind, why.split(':').next().unwrap_or("x"), case, "the generic parser yields an unknown packet exposing the exact bytes, which converts back with every field intact", format!("member {i}: {why}"));
                return;
            }
            Ok(Ok(dbg)) => {
                if let Some(Ok(items)) = &via_compound {
                    if items.get(i) != Some(&dbg) {
                        ctx.violate("compound-iteration", kind, "item", case, format!("item {i} == {dbg}"), format!("{:?}", items.get(i)));
                        return;
                    }
                }
            }
        }
    }
    if let Some(Err(e)) = &via_compound {
        ctx.violate("compound-iteration", kind, "parse", case, "the image parses as a compound", e.clone());
    }
    ctx.nontrivial(hash_of(cfg));
    ctx.sample_sparse(5_003, || J::obj().set("cfg", cfg.shape()).set("image", hex(&bytes[..bytes.len().min(48)])));
}

/// (iv) check_packet::<Custom<PT,MIN>> accepts precisely the well-framed strings
pub fn check_c19_bytes(ctx: &mut Ctx, b: &[u8], pt: u8, min: usize) {
    let _case = crate::watchdog::case_bytes2("c19-bytes", b, pt as u64, min as u64);
    ctx.eval();
    let data = drive::exact(b);
    let want = dec::well_framed(&data, Some(pt), min);
    let got = crate::with_custom!(pt, min, C, B, call(|| parser::check_packet::<C>(&data)));
    let Some(got) = got else { return };
    match got {
        Err(p) => ctx.violate(
            "check_packet",
            "helper",
            "panic",
            || bytes_case("c19-bytes", b).set("pt", pt).set("min", min),
            "check_packet returns",
            format!("panic at {}: {}", short_site(&p.site), p.msg),
        ),
        Ok(r) => {
            ctx.class(match (r.is_ok(), want) {
                (true, true) => "c19:check_packet:accept",
                (false, false) => "c19:check_packet:reject",
                _ => "c19:check_packet:DISAGREE",
            });
            if r.is_ok() != want {
                ctx.violate(
                    "check_packet",
                    "helper",
                    if want { "rejects-well-framed" } else { "accepts-ill-framed" },
                    || bytes_case("c19-bytes", b).set("pt", pt).set("min", min),
                    format!("accept == well_framed(type {pt}, min {min}) == {want}"),
                    format!("{r:?}"),
                );
            }
            if want {
                ctx.nontrivial(crate::ctx::fnv(b) ^ ((pt as u64) << 56) ^ ((min as u64) << 48));
            }
        }
    }
}

pub fn run_c19(ctx: &mut Ctx, shard: usize, nshards: usize) {
    use crate::custom::{MINS, PTS};
    let tiny = ctx.scale < 0.5;
    // (i) helpers: every (PT,MIN) × padding 0..=255 × count 0..=31 (strided) × buffers of every multiple of 4 up to 64
    let mut idx = 0usize;
    for &pt in &PTS {
        for &min in &MINS {
            for padding in 0..=255u16 {
                idx += 1;
                if idx % nshards != shard || (tiny && idx % 61 != 0) {
                    continue;
                }
                for buf_len in (4..=64usize).step_by(4) {
                    let count = ((padding as usize * 7 + buf_len) % 32) as u8;
                    check_c19_helpers(ctx, pt, min, padding as u8, count, buf_len);
                }
                for count in [0u8, 31] {
                    check_c19_helpers(ctx, pt, min, padding as u8, count, 256);
                }
            }
        }
    }
    // (i, large) the header helper on buffers whose byte count does not fit 16 bits
    if !tiny {
        let mut li = 0usize;
        for buf_len in [65_532usize, 65_536, 65_540, 65_544, 131_072, 131_076, 196_612, 262_140, 262_144] {
            for (pt, min, padding, count) in [(PTS[0], MINS[0], 0u8, 0u8), (PTS[2], MINS[1], 4, 31), (PTS[4], MINS[3], 252, 17)] {
                li += 1;
                if li % nshards == shard {
                    check_c19_helpers(ctx, pt, min, padding, count, buf_len);
                    ctx.class("c19:helpers:buffer>=64KiB");
                }
            }
        }
        // (ii, iii large) unknown / third-party packets larger than 65 535 bytes, alone and inside compounds
        for (k, c) in crate::mon::writers::large_cfgs().into_iter().enumerate() {
            if k % nshards != shard || !matches!(c, Cfg::Unknown { .. } | Cfg::Custom { .. }) {
                continue;
            }
            check_c19_cfg(ctx, &c, How::default());
            check_c19_cfg(ctx, &Cfg::Compound(vec![Cfg::Rr { ssrc: 1, blocks: vec![], padding: 0 }, c.clone(), Cfg::Bye { sources: vec![1], reason: String::new(), padding: 0 }]), How::default());
            ctx.class("c19:cfg:image>=64KiB");
        }
    }
    // (ii, iii relational) unknown / third-party members in nested compounds, zero padding reported either way
    {
        let mut k = 0usize;
        for c in crate::mon::writers::relational_cfgs() {
            let has_foreign = |c: &Cfg| {
                fn walk(c: &Cfg) -> bool {
                    match c {
                        Cfg::Unknown { .. } | Cfg::Custom { .. } => true,
                        Cfg::Compound(m) => m.iter().any(walk),
                        _ => false,
                    }
                }
                walk(c)
            };
            if !has_foreign(&c) {
                continue;
            }
            for h in 0..crate::drive::ROUTES {
                k += 1;
                if k % nshards == shard && (!tiny || k % 7 == 0) {
                    check_c19_cfg(ctx, &c, crate::mon::writers::hows(h));
                }
            }
        }
    }
    // (ii)+(iii) unknown / custom configurations alone and inside compounds
    let n = ctx.n(if ctx.thorough { 200_000 } else { 8_000 });
    let mut s = Src::prng(mix(ctx.seed, 0xc19 + shard as u64));
    for i in 0..n {
        let c = match i % 4 {
            0 => cfgs::unknown(&mut s, Mix::Valid),
            1 => cfgs::custom(&mut s, Mix::Valid),
            _ => {
                let k = s.range(1, 4);
                let mut m = vec![];
                for j in 0..k {
                    let mut x = match s.below(4) {
                        0 => cfgs::unknown(&mut s, Mix::Valid),
                        1 | 2 => cfgs::custom(&mut s, Mix::Valid),
                        _ => cfgs::leaf(&mut s, Mix::Valid),
                    };
                    if j + 1 != k {
                        x.set_padding(0);
                    }
                    m.push(x);
                }
                Cfg::Compound(m)
            }
        };
        check_c19_cfg(ctx, &c, crate::mon::writers::hows(i));
    }
    // deterministic: every (PT,MIN) × all paddings for the custom builder, every count for unknown
    let mut k = 0usize;
    for &pt in &PTS {
        for &min in &MINS {
            for p in (0..=252u16).step_by(4) {
                k += 1;
                if k % nshards != shard || (tiny && k % 61 != 0) {
                    continue;
                }
                let c = Cfg::Custom { pt, min, count: (p / 4 % 32) as u8, body: vec![0xc3; min - 4 + (p as usize % 12) / 4 * 4], padding: p as u8 };
                check_c19_cfg(ctx, &c, How::default());
                let u = Cfg::Unknown { pt, count: (p / 8) as u8, data: vec![0x3c; (p as usize % 20) / 4 * 4], padding: p as u8 };
                check_c19_cfg(ctx, &u, How::default());
                check_c19_cfg(ctx, &Cfg::Compound(vec![Cfg::Rr { ssrc: 1, blocks: vec![], padding: 0 }, c, ]), How::default());
            }
        }
    }
    // (iv) check_packet on hostile strings: header space restricted to the family's types
    let mut v: Vec<u8> = Vec::with_capacity(80);
    let mut j = 0usize;
    for &pt in &PTS {
        for &min in &MINS {
            for b0 in 0..=255u16 {
                j += 1;
                if j % nshards != shard || (tiny && j % 61 != 0) {
                    continue;
                }
                for b1 in [pt, pt.wrapping_add(1), 200] {
                    for lf in 0..=9u16 {
                        for len in [0usize, 1, 3, 4, 5, 8, 12, 16, 20, 28, 32, 36, 40] {
                            v.clear();
                            v.extend_from_slice(&[b0 as u8, b1, (lf >> 8) as u8, lf as u8]);
                            v.truncate(len.min(4));
                            for last in [0u8, 1, 4] {
                                v.truncate(len.min(4));
                                while v.len() < len {
                                    v.push(0x11);
                                }
                                if len > 4 {
                                    let l = v.len();
                                    v[l - 1] = last;
                                }
                                check_c19_bytes(ctx, &v, pt, min);
                                if len <= 4 {
                                    break;
                                }
                            }
                        }
                    }
                }
            }
        }
    }
    let n = ctx.n(if ctx.thorough { 200_000 } else { 10_000 });
    for _ in 0..n {
        let pt = s.pick(&PTS);
        let min = s.pick(&MINS);
        let mut b = if s.chance(1, 2) {
            {
                let c = s.u8() & 0x1f;
                let n = 4 * s.below(12);
                let body = s.fill(n);
                enc::raw_packet(pt, c, &body, 4 * s.below(4) as u8)
            }
        } else {
            crate::gen::bytes::random_under_header(&mut s, pt)
        };
        if s.chance(1, 2) {
            crate::gen::bytes::mutate(&mut s, &mut b);
        }
        check_c19_bytes(ctx, &b, pt, min);
    }
}

pub fn floor_c19(ctx: &Ctx) -> Vec<(String, bool)> {
    let all = ctx.all_classes();
    [
        "c19:check_padding:ok",
        "c19:check_padding:err",
        "c19:helpers:checked",
        "c19:helpers:buffer>=64KiB",
        "c19:helpers:max-count-override",
        "c19:cfg:image>=64KiB",
        "c19:check_packet:accept",
        "c19:check_packet:reject",
        "c19:unknown:padded:count>0",
        "c19:unknown:unpadded:count=0",
        "c19:custom:padded:count>0",
        "c19:compound:",
    ]
    .iter()
    .map(|c| (c.to_string(), all.keys().any(|k| k.starts_with(c)) || (c.contains("padded") && !ctx.violation_counts.is_empty()) || (c.contains("max-count") && ctx.scale < 0.5)))
    .collect()
}
