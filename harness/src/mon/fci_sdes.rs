//! C10 (SDES tokenisation), C13 (padding transparency), C15 (FCI decoding).

use crate::cfg::*;
use crate::ctx::{bytes_case, fnv, hash_of, Ctx};
use crate::drive::{call, exact, short_site};
use crate::gen::bytes as gb;
use crate::gen::cfgs::{self, Mix};
use crate::json::{hex, J};
use crate::model::dec::{self, SdesClass, SeenChunk, SeenItem};
use crate::model::enc;
use crate::obs::{self, Ty};
use crate::source::{mix, Src};
use rtcp_types::prelude::*;
use rtcp_types::*;

// ================================================================== C10

struct SdesSeen {
    chunks: Vec<SeenChunk>,
    lengths: Vec<usize>,
}

fn observe_sdes(b: &[u8]) -> Result<SdesSeen, RtcpParseError> {
    let p = Sdes::parse(b)?;
    crate::mon::parsers::parser_returned();
    let bound = obs::bound_for(b.len());
    let base = b.as_ptr() as usize;
    let mut chunks = vec![];
    let mut lengths = vec![];
    for c in obs::drain(p.chunks(), bound) {
        crate::mon::c01::st!("SdesChunk::length");
        lengths.push(c.length());
        let mut items = vec![];
        for i in obs::drain(c.items(), bound) {
            crate::mon::c01::st!("SdesItem::type_");
            let t = i.type_();
            crate::mon::c01::st!("SdesItem::value");
            let v = i.value();
            let off = if v.is_empty() {
                None
            } else {
                let p = v.as_ptr() as usize;
                if p >= base && p + v.len() <= base + b.len() {
                    Some(p - base)
                } else {
                    Some(usize::MAX) // outside the input: never matches an expected offset
                }
            };
            crate::mon::c01::st!("SdesItem::priv_prefix");
            let prefix = if t == SdesItem::PRIV { Some(i.priv_prefix().to_vec()) } else { None };
            crate::mon::c01::st!("SdesItem::length");
            items.push(SeenItem { type_: t, length: i.length(), value_off: off, value: v.to_vec(), prefix });
        }
        chunks.push(SeenChunk { ssrc: c.ssrc(), items });
    }
    Ok(SdesSeen { chunks, lengths })
}

pub fn check_c10(ctx: &mut Ctx, input: &[u8]) {
    let data = exact(input);
    let b: &[u8] = &data;
    let _case = crate::watchdog::case_bytes("c10", b);
    if !dec::well_framed(b, Some(202), 4) {
        ctx.class("c10:skipped:not-framed-as-sdes");
        return;
    }
    ctx.eval();
    let class = dec::sdes_classify(b);
    crate::mon::c01::st!("Sdes::parse");
    crate::mon::parsers::reset_parser_returned();
    let r = call(|| observe_sdes(b));
    let seen = match r {
        // A parser that unwinds has neither accepted nor yielded anything. For a well-formed packet that is
        // this property ("the parser accepts it"); for the other classes an unwinding *parser* is C01's
        // business, while an unwinding *accessor* on an accepted value means it yields no tokenisation.
        Err(_) if !crate::mon::parsers::did_parser_return() && !matches!(class, SdesClass::MustAccept(_)) => {
            crate::mon::parsers::other_property(ctx, "c10", "parser-panics(C01)");
            return;
        }
        Err(p) => {
            ctx.violate(
                "no-panic",
                "Sdes",
                &crate::drive::panic_feature(&p),
                || bytes_case("c10", b),
                "parse and accessors return",
                format!("panic at {}: {} on {}", short_site(&p.site), p.msg, hex(&b[..b.len().min(64)])),
            );
            return;
        }
        Ok(r) => r,
    };
    match (&class, &seen) {
        (SdesClass::MustAccept(tokens), Err(e)) => {
            ctx.class("c10:must-accept");
            ctx.violate(
                "well-formed-accepted",
                "Sdes",
                crate::drive::variant_name(&format!("{e:?}")),
                || bytes_case("c10", b),
                format!("a well-formed SDES packet with {} chunk(s) is accepted", tokens.len()),
                format!("Sdes::parse fails with {e:?} on {}", hex(&b[..b.len().min(64)])),
            );
        }
        (SdesClass::MustAccept(tokens), Ok(s)) => {
            ctx.class("c10:must-accept");
            let mut why: Option<(&str, String)> = None;
            if s.chunks.len() != tokens.len() {
                why = Some(("chunk-count", format!("{} chunks yielded, the packet has {}", s.chunks.len(), tokens.len())));
            } else {
                'outer: for (k, (g, t)) in s.chunks.iter().zip(tokens).enumerate() {
                    if g.ssrc != t.ssrc {
                        why = Some(("ssrc", format!("chunk {k}: ssrc {:08x}, the wire says {:08x}", g.ssrc, t.ssrc)));
                        break;
                    }
                    if g.items.len() != t.items.len() {
                        why = Some(("item-count", format!("chunk {k}: {} items yielded, the wire has {}", g.items.len(), t.items.len())));
                        break;
                    }
                    for (m, (gi, ti)) in g.items.iter().zip(&t.items).enumerate() {
                        if gi.type_ != ti.type_ || gi.length != ti.length || gi.value != ti.value || gi.prefix != ti.prefix {
                            why = Some((
                                "item",
                                format!(
                                    "chunk {k} item {m}: yielded type {} len {} value {} prefix {:?}; the wire says type {} len {} value {} prefix {:?}",
                                    gi.type_,
                                    gi.length,
                                    hex(&gi.value),
                                    gi.prefix.as_ref().map(|p| hex(p)),
                                    ti.type_,
                                    ti.length,
                                    hex(&ti.value),
                                    ti.prefix.as_ref().map(|p| hex(p))
                                ),
                            ));
                            break 'outer;
                        }
                        if let Some(off) = gi.value_off {
                            let exp = ti.at + 2 + if ti.type_ == 8 { 1 + ti.prefix.as_ref().map(|p| p.len()).unwrap_or(0) } else { 0 };
                            if off != exp {
                                why = Some(("zero-copy", format!("chunk {k} item {m}: value slice at offset {off}, the value is at {exp}")));
                                break 'outer;
                            }
                        }
                    }
                    if s.lengths[k] != t.encoded_len {
                        why = Some(("chunk-length", format!("chunk {k}: length() == {}, the chunk occupies {} bytes", s.lengths[k], t.encoded_len)));
                        break;
                    }
                }
            }
            if let Some((feature, text)) = why {
                ctx.violate(
                    "yields-the-tokens",
                    "Sdes",
                    feature,
                    || bytes_case("c10", b),
                    "exactly the chunks and items of the RFC 3550 tokenisation, each chunk reporting its encoded length",
                    format!("{text} on {}", hex(&b[..b.len().min(64)])),
                );
            }
            ctx.nontrivial(fnv(b));
        }
        (SdesClass::MustReject(reason), Ok(s)) => {
            ctx.class_dyn(format!("c10:must-reject:{reason:?}"));
            ctx.violate(
                "malformed-rejected",
                "Sdes",
                &format!("{reason:?}"),
                || bytes_case("c10", b),
                format!("rejected: {reason:?}"),
                format!("Sdes::parse accepts {} and yields {} chunk(s)", hex(&b[..b.len().min(64)]), s.chunks.len()),
            );
        }
        (SdesClass::MustReject(reason), Err(_)) => {
            ctx.class_dyn(format!("c10:must-reject:{reason:?}"));
            ctx.nontrivial(fnv(b));
        }
        (SdesClass::Either(why), Err(_)) => {
            ctx.class("c10:either:rejected");
            ctx.class_dyn(format!("c10:either:{why}"));
        }
        (SdesClass::Either(why), Ok(s)) => {
            ctx.class("c10:either:accepted");
            ctx.class_dyn(format!("c10:either:{why}"));
            if let Err(text) = dec::sdes_consistent(b, &s.chunks) {
                ctx.violate(
                    "ambiguous-but-consistent",
                    "Sdes",
                    why,
                    || bytes_case("c10", b),
                    "what an accepting parser yields is a tokenisation of the bytes",
                    format!("{text} on {}", hex(&b[..b.len().min(64)])),
                );
            }
            ctx.nontrivial(fnv(b));
        }
    }
    ctx.sample_sparse(300_007, || J::obj().set("hex", hex(&b[..b.len().min(48)])).set("class", format!("{:?}", std::mem::discriminant(&class))));
}

pub fn run_c10(ctx: &mut Ctx, shard: usize, nshards: usize) {
    // exhaustive small-alphabet bodies
    if ctx.scale >= 0.5 {
        for words in 0..=if ctx.thorough { 3 } else { 2 } {
            let n = gb::sdes_small_alphabet(words, shard, nshards, &mut |b| check_c10(ctx, b));
            ctx.class_add(&format!("exhaustive:sdes-bodies({words} words over {{0,1,2,8}} x 3 ssrc prefixes x padding 0/4/8 x SC)"), n);
        }
        // a second alphabet whose lengths make items end exactly at the end of a padding trailer
        for words in 1..=2 {
            let n = gb::sdes_small_alphabet_over([0, 1, 4, 6], words, shard, nshards, &mut |b| check_c10(ctx, b));
            ctx.class_add(&format!("exhaustive:sdes-bodies({words} words over {{0,1,4,6}} x 3 ssrc prefixes x padding 0/4/8 x SC)"), n);
        }
    } else {
        let mut k = 0u64;
        gb::sdes_small_alphabet(2, shard, nshards, &mut |b| {
            k += 1;
            if k % 997 == 0 {
                check_c10(ctx, b)
            }
        });
    }
    // every (length, prefix length) pair of a PRIV item
    if ctx.scale >= 0.5 {
        let n = gb::sdes_priv_pairs(shard, nshards, &mut |b| check_c10(ctx, b));
        ctx.class_add("exhaustive:sdes-priv(all 65536 (length, prefix length) pairs)", n);
    }
    // the relational SDES configurations (item-less chunks, blank values, ...) through the model encoder, padded and not
    for (k, c) in crate::mon::writers::relational_cfgs().into_iter().enumerate() {
        if k % nshards == shard && matches!(c, Cfg::Sdes { .. }) {
            for p in [0u8, 4, 8] {
                let mut c = c.clone();
                c.set_padding(p);
                if let Some(b) = enc::enc(&c) {
                    check_c10(ctx, &b);
                }
            }
        }
    }
    // the largest well-formed SDES packets there are: exactly 65 536 words (length field 0xffff) and one word less,
    // as one chunk of maximal items, unpadded and with the last words taken by padding
    if ctx.scale >= 0.5 {
        let mut k = 0usize;
        for total in [262_144usize, 262_140] {
            for pad in [0u8, 4, 252] {
                k += 1;
                if k % nshards != shard {
                    continue;
                }
                let Some(c) = crate::mon::writers::sdes_of_exactly(total, pad) else { continue };
                if let Some(b) = enc::enc(&c) {
                    if b.len() == total {
                        check_c10(ctx, &b);
                        ctx.class("c10:largest-packet(65536 or 65535 words)");
                    }
                }
            }
        }
    }
    // well-formed packets from the independent encoder, then mutated
    let n = ctx.n(if ctx.thorough { 600_000 } else { 40_000 });
    let mut s = Src::prng(mix(ctx.seed, 0xc10 + shard as u64));
    for i in 0..n {
        let c = cfgs::sdes(&mut s, Mix::Valid);
        let Some(mut b) = enc::enc(&c) else { continue };
        if b.len() > 8192 {
            continue;
        }
        if let Cfg::Sdes { chunks, .. } = &c {
            if chunks.iter().any(|c| c.items.iter().any(|i| i.type_ == 0)) {
                continue;
            }
        }
        check_c10(ctx, &b);
        if i % 2 == 0 {
            gb::mutate(&mut s, &mut b);
            if s.chance(3, 4) {
                gb::fix_len(&mut b);
            }
            check_c10(ctx, &b);
        }
        if i % 8 == 0 {
            let v = gb::random_under_header(&mut s, 202);
            check_c10(ctx, &v);
        }
    }
    // the structural sweep used by C03, through the model encoder
    let mut idx = 0usize;
    for nchunks in 1..=3usize {
        for l0 in 0..=8usize {
            for last in 0..=8usize {
                for ssrc2 in [0u32, 1, 0xff, 0xff00, 0xff_ffff, 0x0100_0000] {
                    for p in [0u8, 4, 8, 252] {
                        idx += 1;
                        if idx % nshards != shard || (ctx.scale < 0.5 && idx % 97 != 0) {
                            continue;
                        }
                        let chunks: Vec<Chunk> = (0..nchunks)
                            .map(|k| Chunk {
                                ssrc: if k == 1 { ssrc2 } else { 0x1000_0000 + k as u32 },
                                items: vec![Item { type_: 1 + k as u8, prefix: vec![], value: "x".repeat(if k + 1 == nchunks { last } else { l0 }) }],
                            })
                            .collect();
                        if let Some(b) = enc::enc(&Cfg::Sdes { chunks, padding: p }) {
                            check_c10(ctx, &b);
                        }
                    }
                }
            }
        }
    }
}

pub fn floor_c10(ctx: &Ctx) -> Vec<(String, bool)> {
    let all = ctx.all_classes();
    [
        "c10:must-accept",
        "c10:must-reject:ItemOverrun",
        "c10:must-reject:PrivPrefixOverrun",
        "c10:must-reject:NonZeroFill",
        "c10:either:accepted",
        "c10:either:rejected",
    ]
    .iter()
    .map(|c| (c.to_string(), all.contains_key(*c)))
    .collect()
}

// ================================================================== C15

const F_NAMES: [&str; 5] = ["Nack", "Pli", "Sli", "Rpsi", "Fir"];

/// home (is transport?, format) of each FCI type
fn home(f: usize) -> (bool, u8) {
    match f {
        0 => (true, 1),
        1 => (false, 1),
        2 => (false, 2),
        3 => (false, 3),
        _ => (false, 4),
    }
}

pub fn check_c15(ctx: &mut Ctx, transport: bool, fmt: u8, fci: &[u8]) {
    check_c15_padded(ctx, transport, fmt, fci, 0)
}

/// The same with RFC 3550 trailing padding behind the control information ("for every feedback packet accepted by
/// the parser": a padded packet is one, and its control information is what lies between the fixed part and the
/// padding - also when that is nothing at all).
pub fn check_c15_padded(ctx: &mut Ctx, transport: bool, fmt: u8, fci: &[u8], padding: u8) {
    ctx.eval();
    let padding = padding & 0xfc;
    let pkt = enc::feedback_raw(if transport { 205 } else { 206 }, fmt & 0x1f, 0x0102_0304, 0x0506_0708, fci, padding);
    if padding != 0 {
        ctx.class(if pkt.len() == 12 + padding as usize { "c15:padded:empty-fci" } else { "c15:padded:with-fci" });
    }
    let fci = &pkt[12..pkt.len() - padding as usize]; // zero-filled to a word boundary by the model
    let data = exact(&pkt);
    let b: &[u8] = &data;
    let _case = crate::watchdog::case_bytes("c15", b);
    let bound = obs::bound_for(b.len());
    let case = || bytes_case("c15", b);
    let r = call(|| -> Result<obs::FciObs, RtcpParseError> {
        if transport {
            let p = TransportFeedback::parse(b)?;
            match obs::tfb(&p, bound) {
                obs::Content::Fb { fci, .. } => Ok(fci),
                _ => unreachable!(),
            }
        } else {
            let p = PayloadFeedback::parse(b)?;
            match obs::pfb(&p, bound) {
                obs::Content::Fb { fci, .. } => Ok(fci),
                _ => unreachable!(),
            }
        }
    });
    let o = match r {
        Err(p) => {
            ctx.violate(
                "no-panic",
                if transport { "TransportFeedback" } else { "PayloadFeedback" },
                &crate::drive::panic_feature(&p),
                case,
                "parse_fci and the FCI iterators return",
                format!("panic at {}: {} on {}", short_site(&p.site), p.msg, hex(&b[..b.len().min(48)])),
            );
            return;
        }
        Ok(Err(_)) => {
            // "for every feedback packet *accepted by the parser*": a rejected packet owes nothing here
            // (that well-formed packets are accepted is C09's second clause)
            crate::mon::parsers::other_property(ctx, "c15", "well-framed-feedback-rejected(C09)");
            return;
        }
        Ok(Ok(o)) => o,
    };
    let oks = [o.nack.is_ok(), o.pli.is_ok(), o.sli.is_ok(), o.rpsi.is_ok(), o.fir.is_ok()];
    for f in 0..5 {
        let (ht, hf) = home(f);
        let matches = ht == transport && hf == (fmt & 0x1f);
        if ctx.evals % 64 == 1 || matches {
            ctx.class_dyn(format!("c15:gate:{}:{}:{}:{}", if transport { "rtpfb" } else { "psfb" }, fmt & 0x1f, F_NAMES[f], if oks[f] { "ok" } else { "err" }));
        }
        if oks[f] && !matches {
            ctx.violate(
                "gating",
                F_NAMES[f],
                &format!("{}:{}", if transport { "rtpfb" } else { "psfb" }, fmt & 0x1f),
                case,
                format!("parse_fci::<{}>() fails on a {} packet with format {}", F_NAMES[f], if transport { "transport" } else { "payload" }, fmt & 0x1f),
                "Ok".to_string(),
            );
        }
    }
    // "... and then: a NACK list yields, per 32-bit word ...": control information that is well-formed for the FCI
    // type whose home (kind, format) the packet has - a whole number of entries and at least one, RPSI padding bits
    // that fit into the bit string, an empty PLI body - is decoded, not refused
    {
        let n = fci.len();
        let well_formed = [
            n >= 4 && n % 4 == 0,
            n == 0,
            n >= 4 && n % 4 == 0,
            n >= 4 && n % 4 == 0 && (fci[0] as usize) <= 8 * (n - 2),
            n >= 8 && n % 8 == 0,
        ];
        let errs = [o.nack.as_ref().err(), o.pli.as_ref().err(), o.sli.as_ref().err(), o.rpsi.as_ref().err(), o.fir.as_ref().err()];
        for f in 0..5 {
            let (ht, hf) = home(f);
            if ht == transport && hf == (fmt & 0x1f) && well_formed[f] {
                if let Some(e) = errs[f] {
                    ctx.violate(
                        "well-formed-decodes",
                        F_NAMES[f],
                        crate::drive::variant_name(e),
                        case,
                        format!("parse_fci::<{}>() decodes the {} bytes of well-formed control information", F_NAMES[f], n),
                        format!("Err({e}) on FCI {}", hex(&fci[..n.min(40)])),
                    );
                } else {
                    ctx.class_dyn(format!("c15:well-formed-decoded:{}", F_NAMES[f]));
                }
            }
        }
    }
    let mut bad = |ctx: &mut Ctx, f: &str, feature: &str, exp: String, got: String| {
        ctx.violate("decoding", f, feature, || bytes_case("c15", b), exp, format!("{got} on FCI {}", hex(&fci[..fci.len().min(40)])));
    };
    if let Ok(got) = &o.nack {
        let want = dec::nack(fci);
        if *got != want {
            let feature = if got.len() != want.len() { "count" } else { "value" };
            bad(ctx, "Nack", feature, format!("{:?}", &want[..want.len().min(40)]), format!("{:?}", &got[..got.len().min(40)]));
        }
        ctx.class("c15:decoded:Nack");
    }
    if o.pli.is_ok() {
        if !fci.is_empty() {
            bad(ctx, "Pli", "non-empty-body", "PLI accepts only an empty body".into(), format!("Ok with {} FCI bytes", fci.len()));
        }
        ctx.class("c15:decoded:Pli");
    }
    if let Ok(got) = &o.sli {
        let want = dec::sli(fci);
        if *got != want {
            bad(ctx, "Sli", if got.len() != want.len() { "count" } else { "value" }, format!("{want:?}"), format!("{got:?}"));
        }
        ctx.class("c15:decoded:Sli");
    }
    if let Ok(got) = &o.fir {
        let want = dec::fir(fci);
        if *got != want {
            bad(ctx, "Fir", if got.len() != want.len() { "count" } else { "value" }, format!("{want:?}"), format!("{got:?}"));
        }
        ctx.class("c15:decoded:Fir");
    }
    if let Ok((pt, bytes, ign)) = &o.rpsi {
        if fci.len() >= 2 {
            if *pt != fci[1] & 0x7f {
                bad(ctx, "Rpsi", "payload-type", format!("{}", fci[1] & 0x7f), format!("{pt}"));
            }
            if let Some((_, want)) = dec::rpsi(fci) {
                match dec::Bits::new(bytes, *ign) {
                    Some(g) if g.same(&want) => {}
                    Some(g) => bad(ctx, "Rpsi", "bit-string", want.render(), g.render()),
                    None => bad(ctx, "Rpsi", "bit-string", want.render(), format!("{} ignored bits on {} bytes", ign, bytes.len())),
                }
            }
        }
        ctx.class("c15:decoded:Rpsi");
    }
    if oks.iter().any(|x| *x) {
        ctx.nontrivial(fnv(b));
        ctx.sample_sparse(400_009, || J::obj().set("kind", if transport { "rtpfb" } else { "psfb" }).set("fmt", fmt).set("fci", hex(&fci[..fci.len().min(32)])));
    }
}

/// direct `FciParser::parse` on byte strings of arbitrary length: the complete words / entries must be yielded
pub fn check_c15_direct(ctx: &mut Ctx, fci_in: &[u8]) {
    ctx.eval();
    let data = exact(fci_in);
    let fci: &[u8] = &data;
    let _case = crate::watchdog::case_bytes("c15-direct", fci);
    let bound = obs::bound_for(fci.len());
    let r = call(|| {
        let mut errs: Vec<(&'static str, String, String)> = vec![];
        if let Ok(n) = <Nack as FciParser>::parse(fci) {
            let got = obs::nack_entries(&n, bound);
            let want = dec::nack(fci);
            if got != want {
                errs.push(("Nack", format!("{:?}", &want[..want.len().min(40)]), format!("{:?}", &got[..got.len().min(40)])));
            }
        }
        if let Ok(x) = <Sli as FciParser>::parse(fci) {
            let got = obs::sli_entries(&x, bound);
            let want = dec::sli(fci);
            if got != want {
                errs.push(("Sli", format!("{want:?}"), format!("{got:?}")));
            }
        }
        if let Ok(x) = <Fir as FciParser>::parse(fci) {
            let got = obs::fir_entries(&x, bound);
            let want = dec::fir(fci);
            if got != want {
                errs.push(("Fir", format!("{want:?}"), format!("{got:?}")));
            }
        }
        if <Pli as FciParser>::parse(fci).is_ok() && !fci.is_empty() {
            errs.push(("Pli", "rejects a non-empty body".into(), "Ok".into()));
        }
        errs
    });
    match r {
        Err(p) => ctx.violate(
            "no-panic",
            "FciParser",
            &crate::drive::panic_feature(&p),
            || bytes_case("c15-direct", fci),
            "FCI parsers and iterators return",
            format!("panic at {}: {} on {}", short_site(&p.site), p.msg, hex(&fci[..fci.len().min(40)])),
        ),
        Ok(errs) => {
            for (f, exp, got) in errs {
                ctx.violate("decoding-direct", f, "value", || bytes_case("c15-direct", fci), exp, format!("{got} on FCI {}", hex(&fci[..fci.len().min(40)])));
            }
            ctx.class(match fci.len() % 4 {
                0 => "c15:direct:len%4=0",
                1 => "c15:direct:len%4=1",
                2 => "c15:direct:len%4=2",
                _ => "c15:direct:len%4=3",
            });
        }
    }
}

/// All 2^32 single NACK words and SLI words, allocation-free (release tier only).
fn exhaustive_words(ctx: &mut Ctx, shard: usize, nshards: usize) {
    let per = (1u64 << 32) / nshards as u64;
    let lo = per * shard as u64;
    let hi = if shard + 1 == nshards { 1u64 << 32 } else { lo + per };
    let mut n = 0u64;
    for w in lo..hi {
        let word = (w as u32).to_be_bytes();
        let ok = call(|| {
            let nk = <Nack as FciParser>::parse(&word).ok()?;
            let mut it = nk.entries();
            let pid = (w >> 16) as u16;
            let blp = w as u16;
            if it.next()? != pid {
                return None;
            }
            for k in 1..=16u16 {
                if blp & (1 << (k - 1)) != 0 && it.next()? != pid.wrapping_add(k) {
                    return None;
                }
            }
            if it.next().is_some() {
                return None;
            }
            let sl = <Sli as FciParser>::parse(&word).ok()?;
            let mut it = sl.lost_macroblocks();
            let e = it.next()?;
            if it.next().is_some() {
                return None;
            }
            Some(e)
        });
        n += 1;
        match ok {
            Ok(Some(e)) => {
                // SLI entry fields are only reachable through Debug: sample them sparsely, compare all via encode identity
                if w % 65_521 == 0 {
                    let d = format!("{e:?}");
                    let want = dec::sli(&word)[0];
                    if obs::sli_entry_from_debug(&d) != Some(want) {
                        ctx.violate("decoding", "Sli", "value", || bytes_case("c15-direct", &word), format!("{want:?}"), d);
                    }
                }
            }
            _ => {
                ctx.violate("decoding", "Nack", "single-word", || bytes_case("c15-direct", &word), "PID then PID+k for each set bit, one SLI entry", format!("{ok:?}"));
            }
        }
    }
    *ctx.classes.entry("c15:exhaustive-32bit-words").or_insert(0) += n;
}

pub fn run_c15(ctx: &mut Ctx, shard: usize, nshards: usize) {
    let tiny = ctx.scale < 0.5;
    // gating matrix: 2 kinds × 32 formats × 5 F, with a body that every F can decode
    if shard == 0 {
        for transport in [true, false] {
            for fmt in 0..32u8 {
                for body in [&[][..], &[0, 1, 0, 2][..], &[0, 96, 0xff, 0xee, 0, 0, 0, 1][..], &[0u8; 16][..]] {
                    check_c15(ctx, transport, fmt, body);
                    for padding in [4u8, 8, 12, 16, 252] {
                        check_c15_padded(ctx, transport, fmt, body, padding);
                    }
                }
            }
        }
    }
    // all 65 536 masks × 96 PIDs (incl. the wrap-around region)
    let pids: Vec<u16> = (0..40u16).map(|i| i * 1637).chain(0xffc8..=0xffff).collect();
    for (pi, &pid) in pids.iter().enumerate() {
        if pi % nshards != shard {
            continue;
        }
        let step = if tiny { 257 } else { 1 };
        for blp in (0..=65535u32).step_by(step) {
            let w = [(pid >> 8) as u8, pid as u8, (blp >> 8) as u8, blp as u8];
            check_c15(ctx, true, 1, &w);
        }
    }
    // every SLI field value with the others random
    let mut s = Src::prng(mix(ctx.seed, 0xc15 + shard as u64));
    if !tiny {
        for v in (0..0x2000u32).filter(|v| *v as usize % nshards == shard) {
            let w1 = (v << 19) | (s.u32() & 0x7ffff);
            let w2 = ((s.u32() & 0x1fff) << 19) | (v << 6) | (s.u32() & 0x3f);
            let w3 = (s.u32() & !0x3f) | (v & 0x3f);
            for w in [w1, w2, w3] {
                check_c15(ctx, false, 2, &w.to_be_bytes());
            }
        }
        // RPSI: all PB × lengths 4..=16
        for pb in (0..=255u16).filter(|v| *v as usize % nshards == shard) {
            for len in (4..=16usize).step_by(4) {
                let mut f = s.fill(len);
                f[0] = pb as u8;
                check_c15(ctx, false, 3, &f);
            }
        }
    }
    // random multi-word lists in every (kind, format) the decoders accept, and a few they do not
    let n = ctx.n(if ctx.thorough { 600_000 } else { 40_000 });
    for i in 0..n {
        let words = match s.below(8) {
            0 => 0,
            1..=5 => s.range(1, 6),
            _ => s.range(7, 80),
        };
        let mut f = s.fill(4 * words);
        let (transport, fmt) = match i % 8 {
            0 | 1 => (true, 1),
            2 => (false, 1),
            3 => (false, 2),
            4 => {
                if !f.is_empty() {
                    let maxpb = 8 * (f.len() - 2);
                    f[0] = s.below(maxpb.min(255) + 1) as u8;
                }
                (false, 3)
            }
            5 => (false, 4),
            _ => (s.chance(1, 2), s.u8() & 0x1f),
        };
        check_c15(ctx, transport, fmt, &f);
        if i % 3 == 0 {
            // the same control information in front of trailing padding (every amount; small ones more often)
            let padding = if s.chance(1, 2) { 4 * s.range(1, 4) as u8 } else { 4 * s.range(1, 63) as u8 };
            check_c15_padded(ctx, transport, fmt, &f, padding);
        }
        if i % 4 == 0 {
            let l = s.range(0, 41);
            let d = s.fill(l);
            check_c15_direct(ctx, &d);
        }
    }
    // repeated and nearly-repeated words / entries (a decoder must not deduplicate or merge)
    if shard == 0 {
        let reps: Vec<Vec<u8>> = vec![
            [[0u8, 0, 0, 7, 9, 0, 0, 0]; 3].concat(),                                     // the same FIR entry three times
            [[1u8, 2, 3, 4, 5, 0, 0, 0], [1, 2, 3, 4, 5, 0xff, 0xff, 0xff]].concat(),        // equal in SSRC and sequence, reserved bytes differ
            [[1u8, 2, 3, 4, 5, 0, 0, 0], [1, 2, 3, 4, 6, 0, 0, 0], [1, 2, 3, 4, 5, 0, 0, 0]].concat(), // A, B, A
            [[0x12u8, 0x34, 0x00, 0x05]; 4].concat(),                                      // the same NACK / SLI word four times
            [[0x12u8, 0x34, 0x00, 0x05], [0x12, 0x35, 0x00, 0x02]].concat(),               // overlapping NACK windows
            [[0x00u8, 0x64, 0x05, 0x07], [0x00, 0x78, 0x07, 0x87]].concat(),
            vec![0u8; 24],
            vec![0xffu8; 24],
            // control information that looks like an RFC 3550 padding trailer (the P bit is not set)
            vec![0, 0, 0, 4],
            vec![0, 0, 0, 0, 0, 0, 0, 8],
            vec![0, 0, 0, 4, 0, 0, 0, 4],
            vec![0, 0, 0, 1],
        ];
        for r in &reps {
            for f in 0..5usize {
                let (transport, fmt) = home(f);
                check_c15(ctx, transport, fmt, r);
            }
            check_c15_direct(ctx, r);
        }
        // SLI words that describe contiguous runs of one picture (must come out as separate entries)
        let w = |first: u32, num: u32, pic: u32| ((first << 19) | (num << 6) | pic).to_be_bytes();
        let runs = [w(100, 20, 7), w(120, 30, 7), w(150, 1, 7)].concat();
        check_c15(ctx, false, 2, &runs);
        check_c15_direct(ctx, &runs);
        ctx.class("c15:repeated-entries");
    }
    // control information of 64 KiB and more (the byte length no longer fits 16 bits): every decoder behind
    // its home (kind, format), and the direct parsers
    if ctx.scale >= 0.5 {
        let mut k = 0usize;
        for len in [65_528usize, 65_532, 65_536, 65_540, 65_544, 131_072, 262_128] {
            for f in 0..5usize {
                k += 1;
                if k % nshards != shard {
                    continue;
                }
                let (transport, fmt) = home(f);
                let mut fci: Vec<u8> = (0..len).map(|i| (i as u32).wrapping_mul(2_654_435_761).to_be_bytes()[1]).collect();
                if f == 3 {
                    fci[0] = 13; // RPSI: a plausible number of padding bits
                }
                check_c15(ctx, transport, fmt, &fci);
                check_c15_direct(ctx, &fci);
                ctx.class("c15:fci>=64KiB");
            }
        }
    }
    if ctx.thorough && !cfg!(debug_assertions) && ctx.scale >= 1.0 {
        exhaustive_words(ctx, shard, nshards);
    }
}

pub fn floor_c15(ctx: &Ctx) -> Vec<(String, bool)> {
    let all = ctx.all_classes();
    let mut f = vec![];
    // all 2×32×5 gating cells
    let mut cells = 0;
    for k in ["rtpfb", "psfb"] {
        for fmt in 0..32 {
            for n in F_NAMES {
                if all.contains_key(&format!("c15:gate:{k}:{fmt}:{n}:ok")) || all.contains_key(&format!("c15:gate:{k}:{fmt}:{n}:err")) {
                    cells += 1;
                }
            }
        }
    }
    f.push((format!("c15:gating-cells-observed == 320 (saw {cells})"), cells == 320 || ctx.scale < 1.0));
    for n in F_NAMES {
        let c = format!("c15:decoded:{n}");
        f.push((c.clone(), all.contains_key(&c)));
    }
    f.push(("c15:fci>=64KiB".to_string(), all.contains_key("c15:fci>=64KiB")));
    for r in 0..4 {
        let c = format!("c15:direct:len%4={r}");
        f.push((c.clone(), all.contains_key(&c)));
    }
    f
}

// ================================================================== C13

pub fn check_c13(ctx: &mut Ctx, base: &[u8], pad: u8) {
    let _case = crate::watchdog::case_bytes2("c13", base, pad as u64, 0);
    if base.len() < 4 || base[0] & 0x20 != 0 || pad == 0 || pad % 4 != 0 || base.len() + pad as usize > enc::MAX_PACKET_BYTES {
        return;
    }
    let Some(ty) = Ty::of_pt(base[1]) else {
        check_c13_third_party(ctx, base, pad);
        return;
    };
    ctx.eval();
    let p_data = exact(base);
    let q = enc::pad(base, pad);
    let q_data = exact(&q);
    let name = ty.name();
    let case = || bytes_case("c13", base).set("pad", pad);
    let rp = obs::parse_typed(ty, &p_data);
    let un = match rp {
        Ok(Ok(p)) => p,
        Ok(Err(_)) => {
            ctx.class("c13:skipped:unpadded-not-accepted");
            return;
        }
        Err(p) => {
            // the reference observation itself unwinds: nothing to compare the padded packet with (C01's business)
            let _ = &p;
            let _ = &case;
            crate::mon::parsers::other_property(ctx, "c13", "unpadded-observation-panics(C01)");
            return;
        }
    };
    match obs::parse_typed(ty, &q_data) {
        Err(p) => ctx.violate(
            "no-panic",
            name,
            &crate::drive::panic_feature(&p),
            case,
            "accessors return on the padded packet",
            format!("panic at {}: {} (padding {pad})", short_site(&p.site), p.msg),
        ),
        Ok(Err(e)) => ctx.violate(
            "padded-accepted",
            name,
            crate::drive::variant_name(&format!("{e:?}")),
            case,
            format!("the packet with {pad} bytes of RFC 3550 padding is accepted"),
            format!("{name}::parse fails with {e:?}"),
        ),
        Ok(Ok(pd)) => {
            if pd.padding != Some(pad) {
                ctx.violate("padding-accessor", name, "value", case, format!("padding() == Some({pad})"), format!("{:?}", pd.padding));
            }
            // the datagram entry point is a parser of this packet too: a datagram that consists of the unpadded
            // packet is accepted and hands it out; so is the datagram that consists of the padded one
            let via = |d: &[u8]| -> Result<Option<String>, crate::drive::Panicked> {
                call(|| match Compound::parse(d) {
                    Err(e) => Some(format!("Compound::parse fails with {e:?}")),
                    Ok(mut c) => match c.next() {
                        Some(Ok(_)) => None,
                        other => Some(format!("the compound's first item is {}", crate::json::trunc(&format!("{other:?}"), 120))),
                    },
                })
            };
            if let (Ok(None), Ok(Some(why))) = (via(&p_data), via(&q_data)) {
                ctx.violate(
                    "padded-accepted",
                    name,
                    "as-a-datagram",
                    case,
                    format!("the datagram holding the packet with {pad} bytes of padding is accepted and yields it, as the unpadded one is"),
                    why,
                );
            }
            if pd.content != un.content {
                // name the part that differs
                let feature = match (&un.content, &pd.content) {
                    (obs::Content::Fb { fci: a, .. }, obs::Content::Fb { fci: b, .. }) => {
                        if a.nack != b.nack {
                            "fci-nack"
                        } else if a.pli != b.pli {
                            "fci-pli"
                        } else if a.sli != b.sli {
                            "fci-sli"
                        } else if a.rpsi != b.rpsi {
                            "fci-rpsi"
                        } else if a.fir != b.fir {
                            "fci-fir"
                        } else {
                            "header-fields"
                        }
                    }
                    (obs::Content::Sdes { chunks: a }, obs::Content::Sdes { chunks: b }) => {
                        if a.len() != b.len() {
                            "chunk-count"
                        } else {
                            "chunk-content"
                        }
                    }
                    (obs::Content::Bye { reason: a, .. }, obs::Content::Bye { reason: b, .. }) if a != b => "reason",
                    (obs::Content::App { data: a, .. }, obs::Content::App { data: b, .. }) if a != b => "data",
                    _ => "content",
                };
                let (ua, pa) = (format!("{:?}", un.content), format!("{:?}", pd.content));
                ctx.violate(
                    "content-unchanged",
                    name,
                    feature,
                    case,
                    format!("content accessors as on the unpadded packet: {}", crate::json::trunc(&ua, 400)),
                    format!("with {pad} bytes of padding: {}", crate::json::trunc(&pa, 400)),
                );
            }
            ctx.class_dyn(format!("c13:{name}:pad={}", match pad { 4 => "4", 252 => "252", _ => "other" }));
            if let obs::Content::Fb { transport, fmt, .. } = &un.content {
                let f = match (*transport, *fmt) {
                    (true, 1) => "nack",
                    (false, 1) => "pli",
                    (false, 2) => "sli",
                    (false, 3) => "rpsi",
                    (false, 4) => "fir",
                    _ => "other",
                };
                ctx.class_dyn(format!("c13:fci:{f}:pad={}", match pad { 4 => "4", 252 => "252", _ => "other" }));
            }
            ctx.nontrivial(fnv(base) ^ ((pad as u64) << 56));
            ctx.sample_sparse(50_021, || J::obj().set("base", hex(&base[..base.len().min(48)])).set("pad", pad));
        }
    }
}

/// A packet of a type the crate does not know, read the way a third-party type reads it (generic parser ->
/// unknown packet -> `TryFrom<&Unknown>` built on `Unknown::data()`, as tests/custom_packet.rs shows): padding is
/// transparent to its content as well.
fn check_c13_third_party(ctx: &mut Ctx, base: &[u8], pad: u8) {
    let pt = base[1];
    if !crate::custom::PTS.contains(&pt) {
        return;
    }
    ctx.eval();
    let p_data = exact(base);
    let q = enc::pad(base, pad);
    let q_data = exact(&q);
    let case = || bytes_case("c13", base).set("pad", pad);
    // (count, body bytes, padding) through Packet::parse + try_as, and through Unknown::parse + try_as
    type Obs = Result<(u8, Vec<u8>, Option<u8>), String>;
    let read = |d: &[u8]| -> Result<Option<(Obs, Obs)>, crate::drive::Panicked> {
        call(|| {
            crate::with_custom!(pt, 4usize, C, B, {
                let a: Obs = (|| {
                    let p = Packet::parse(d).map_err(|e| format!("Packet::parse: {e:?}"))?;
                    let c = p.try_as::<C>().map_err(|e| format!("Packet::try_as: {e:?}"))?;
                    Ok((c.count(), c.body().to_vec(), c.padding()))
                })();
                let b: Obs = (|| {
                    let u = Unknown::parse(d).map_err(|e| format!("Unknown::parse: {e:?}"))?;
                    let c = u.try_as::<C>().map_err(|e| format!("Unknown::try_as: {e:?}"))?;
                    Ok((c.count(), c.body().to_vec(), c.padding()))
                })();
                (a, b)
            })
        })
    };
    let un = match read(&p_data) {
        Ok(Some((Ok(a), Ok(b)))) if a == b => a,
        Ok(_) => {
            ctx.class("c13:skipped:unpadded-not-accepted");
            return;
        }
        Err(_) => {
            crate::mon::parsers::other_property(ctx, "c13", "unpadded-observation-panics(C01)");
            return;
        }
    };
    match read(&q_data) {
        Err(p) => ctx.violate("no-panic", "third-party", &crate::drive::panic_feature(&p), case, "accessors return on the padded packet", format!("panic at {}: {} (padding {pad})", short_site(&p.site), p.msg)),
        Ok(None) => {}
        Ok(Some((a, b))) => {
            for (route, r) in [("Packet::try_as", a), ("Unknown::try_as", b)] {
                match r {
                    Err(e) => {
                        ctx.violate("padded-accepted", "third-party", route, case, format!("the packet with {pad} bytes of RFC 3550 padding converts to the third-party type"), e);
                        return;
                    }
                    Ok((count, body, padding)) => {
                        if padding != Some(pad) {
                            ctx.violate("padding-accessor", "third-party", "value", case, format!("padding() == Some({pad})"), format!("{padding:?}"));
                        } else if (count, &body) != (un.0, &un.1) {
                            ctx.violate(
                                "content-unchanged",
                                "third-party",
                                route,
                                case,
                                format!("count {} and body {} as on the unpadded packet", un.0, hex(&un.1[..un.1.len().min(48)])),
                                format!("with {pad} bytes of padding: count {count}, body {}", hex(&body[..body.len().min(48)])),
                            );
                        }
                    }
                }
            }
            ctx.class_dyn(format!("c13:third-party:pad={}", match pad { 4 => "4", 252 => "252", _ => "other" }));
            ctx.nontrivial(fnv(base) ^ ((pad as u64) << 56));
        }
    }
}

fn pads_for(ctx: &Ctx, s: &mut Src) -> Vec<u8> {
    if ctx.thorough && ctx.scale >= 1.0 {
        (4..=252u16).step_by(4).map(|p| p as u8).collect()
    } else {
        vec![4, 8, 252, 4 * s.range(3, 62) as u8]
    }
}

pub fn run_c13(ctx: &mut Ctx, shard: usize, nshards: usize) {
    let mut s = Src::prng(mix(ctx.seed, 0xc13 + shard as u64));
    let mut idx = 0usize;
    // structural sweeps: SDES residues, BYE reason residues, each FCI type, APP payload sizes, report blocks
    let mut bases: Vec<Cfg> = vec![];
    for l in 0..=9usize {
        let v = "r".repeat(l);
        for ns in [0usize, 1, 2] {
            bases.push(Cfg::Bye { sources: (1..=ns as u32).collect(), reason: v.clone(), padding: 0 });
        }
        bases.push(Cfg::Sdes { chunks: vec![Chunk { ssrc: 1, items: vec![Item { type_: 1, prefix: vec![], value: v.clone() }] }], padding: 0 });
        bases.push(Cfg::Sdes {
            chunks: vec![
                Chunk { ssrc: 1, items: vec![Item { type_: 8, prefix: v.as_bytes().to_vec(), value: v.clone() }] },
                Chunk { ssrc: 0x0000_0002, items: vec![Item { type_: 2, prefix: vec![], value: v.clone() }] },
            ],
            padding: 0,
        });
        bases.push(Cfg::App { ssrc: 1, subtype: 2, name: "name".into(), data: vec![0x77; 4 * l], padding: 0 });
        bases.push(Cfg::Fb { kind: FbKind::Transport, sender: 1, media: 2, fci: Fci::Nack((0..l as u16).map(|i| i * 19).collect()), padding: 0 });
        bases.push(Cfg::Fb { kind: FbKind::Payload, sender: 1, media: 2, fci: Fci::Sli((0..=l as u16).map(|i| (i, 2 * i, i as u8)).collect()), padding: 0 });
        bases.push(Cfg::Fb { kind: FbKind::Payload, sender: 1, media: 2, fci: Fci::Fir((0..=l as u32).map(|i| (i, i as u8)).collect()), padding: 0 });
        bases.push(Cfg::Fb { kind: FbKind::Payload, sender: 1, media: 2, fci: Fci::Rpsi { pt: 5, bits: vec![0xf0; l], overrun: if l > 0 { (l % 9) as u8 } else { 0 } }, padding: 0 });
        bases.push(Cfg::Rr { ssrc: 3, blocks: (0..l).map(|k| Rb { ssrc: k as u32, fraction: 1, cumulative: 2, ext_seq: 3, jitter: 4, lsr: 5, dlsr: 6 }).collect(), padding: 0 });
        bases.push(Cfg::Sr { ssrc: 3, ntp: 4, rtp: 5, pc: 6, oc: 7, blocks: (0..l).map(|k| Rb { ssrc: k as u32, fraction: 1, cumulative: 2, ext_seq: 3, jitter: 4, lsr: 5, dlsr: 6 }).collect(), padding: 0 });
    }
    bases.push(Cfg::Fb { kind: FbKind::Payload, sender: 1, media: 2, fci: Fci::Pli, padding: 0 });
    // packets of types the crate does not know, read through a third-party type built on Unknown::data()
    for &pt in &crate::custom::PTS {
        for words in [0usize, 1, 2, 16] {
            bases.push(Cfg::Unknown { pt, count: (words as u8 * 7 + 3) & 0x1f, data: (0..4 * words).map(|i| 0x60 + i as u8).collect(), padding: 0 });
        }
    }
    bases.push(Cfg::Sdes { chunks: vec![], padding: 0 });
    bases.push(Cfg::Sdes { chunks: vec![Chunk { ssrc: 0, items: vec![] }], padding: 0 });
    // relational configurations (contiguous SLI runs, FCIs of 256 / 512 bytes, blank strings, item-less chunks, ...)
    for mut c in crate::mon::writers::relational_cfgs() {
        if !c.is_compound() {
            c.set_padding(0);
            if crate::mon::roundtrip::in_domain(&c) {
                bases.push(c);
            }
        }
    }
    // control information whose size is a multiple of 256 bytes, for every FCI kind
    for words in [64usize, 128, 192, 256] {
        bases.push(Cfg::Fb { kind: FbKind::Transport, sender: 1, media: 2, fci: Fci::Nack((0..words as u16).map(|i| i * 17).collect()), padding: 0 });
        bases.push(Cfg::Fb { kind: FbKind::Payload, sender: 1, media: 2, fci: Fci::Sli((0..words as u16).map(|i| (i, 1, 2)).collect()), padding: 0 });
        bases.push(Cfg::Fb { kind: FbKind::Payload, sender: 1, media: 2, fci: Fci::Fir((0..(words / 2) as u32).map(|i| (i, 1)).collect()), padding: 0 });
        bases.push(Cfg::Fb { kind: FbKind::Payload, sender: 1, media: 2, fci: Fci::Rpsi { pt: 1, bits: vec![0xcc; 4 * words - 2], overrun: 0 }, padding: 0 });
    }
    // sender / receiver reports that carry a profile-specific extension (RFC 3550 6.4.1): raw images
    {
        let mut k = 0usize;
        for nb in [0usize, 1, 2, 10] {
            for words in [1usize, 2, 6] {
                for sr in [true, false] {
                    let blocks: Vec<Rb> = (0..nb).map(|k| Rb { ssrc: k as u32 + 1, fraction: 1, cumulative: 2, ext_seq: 3, jitter: 4, lsr: 5, dlsr: 6 }).collect();
                    let c = if sr { Cfg::Sr { ssrc: 3, ntp: 4, rtp: 5, pc: 6, oc: 7, blocks, padding: 0 } } else { Cfg::Rr { ssrc: 3, blocks, padding: 0 } };
                    let Some(mut b) = enc::enc(&c) else { continue };
                    b.extend((0..4 * words).map(|i| 0x40 + i as u8));
                    gb::fix_len(&mut b);
                    for p in [4u8, 8, 24, 48, 252] {
                        k += 1;
                        if k % nshards == shard && (ctx.scale >= 0.5 || k % 13 == 0) {
                            check_c13(ctx, &b, p);
                            ctx.class("c13:report-with-profile-extension");
                        }
                    }
                }
            }
        }
    }
    // images beyond 65 535 bytes (the offset of the padding count no longer fits 16 bits): three paddings each
    if ctx.scale >= 0.5 {
        for (k, mut c) in crate::mon::writers::large_cfgs().into_iter().enumerate() {
            if k % nshards != shard || c.is_compound() {
                continue;
            }
            c.set_padding(0);
            if !crate::mon::roundtrip::in_domain(&c) {
                continue;
            }
            let Some(b) = enc::enc(&c) else { continue };
            for p in [4u8, 8, 252] {
                if b.len() + p as usize <= enc::MAX_PACKET_BYTES {
                    check_c13(ctx, &b, p);
                    ctx.class("c13:base>=64KiB");
                }
            }
        }
    }
    for c in &bases {
        let Some(b) = enc::enc(c) else { continue };
        for p in (4..=252u16).step_by(4) {
            idx += 1;
            if idx % nshards != shard || (ctx.scale < 0.5 && idx % 53 != 0) {
                continue;
            }
            check_c13(ctx, &b, p as u8);
        }
    }
    // random well-formed packets of every type
    let n = ctx.n(if ctx.thorough { 60_000 } else { 20_000 });
    for _ in 0..n {
        let mut c = cfgs::leaf(&mut s, Mix::Valid);
        c.set_padding(0);
        if !crate::mon::roundtrip::in_domain(&c) {
            continue;
        }
        let Some(b) = enc::enc(&c) else { continue };
        if b.len() > 8192 {
            continue;
        }
        for p in pads_for(ctx, &mut s) {
            check_c13(ctx, &b, p);
        }
    }
}

pub fn floor_c13(ctx: &Ctx) -> Vec<(String, bool)> {
    let all = ctx.all_classes();
    let mut f = vec![];
    for t in ["SenderReport", "ReceiverReport", "Sdes", "Bye", "App", "TransportFeedback", "PayloadFeedback"] {
        for p in ["4", "252", "other"] {
            let c = format!("c13:{t}:pad={p}");
            f.push((c.clone(), all.contains_key(&c) || !ctx.violation_counts.is_empty()));
        }
    }
    for p in ["4", "252", "other"] {
        let c = format!("c13:third-party:pad={p}");
        f.push((c.clone(), all.contains_key(&c) || !ctx.violation_counts.is_empty() || ctx.scale < 0.5));
    }
    for t in ["nack", "pli", "sli", "rpsi", "fir"] {
        for p in ["4", "252"] {
            let c = format!("c13:fci:{t}:pad={p}");
            f.push((c.clone(), all.contains_key(&c) || !ctx.violation_counts.is_empty()));
        }
    }
    f
}
