//! C02–C05 – build → parse round trips. The source of truth is the
//! configuration itself: whatever the builder accepted must come back.

use crate::cfg::*;
use crate::ctx::{cfg_case, hash_of, Ctx};
use crate::drive::{build_bytes, How, WOut};
use crate::expect;
use crate::gen::cfgs::{self, Mix};
use crate::model::repr;
use crate::obs::{parse_typed, Ty};
use crate::source::{mix, Src};

fn how_name(h: How) -> &'static str {
    match (h.owned, h.wrap) {
        (false, false) => "borrowed",
        (true, false) => "owned",
        (false, true) => "borrowed+wrapped",
        (true, true) => "owned+wrapped",
    }
}

/// Is this configuration inside the round-trip domain the properties quantify over, *and*
/// representable according to the model (used where the model's image is the source of truth)?
pub fn in_domain(cfg: &Cfg) -> bool {
    repr::violations(cfg).is_empty() && in_rfc_domain(cfg)
}

/// The kinds and shapes C02–C05 speak about. Whether the configuration is *accepted* is decided by
/// the builder itself ("every ... that the builder accepts"), not by the model.
pub fn in_rfc_domain(cfg: &Cfg) -> bool {
    match cfg {
        // the properties speak of non-zero item types
        Cfg::Sdes { chunks, .. } => chunks.iter().all(|c| c.items.iter().all(|i| i.type_ != 0)),
        // RFC 4585/5104 require at least one FIR / SLI entry; the parsers reject
        // an empty list while the builders accept it. Documented non-demand.
        Cfg::Fb { fci: Fci::Fir(l), .. } => !l.is_empty(),
        Cfg::Fb { fci: Fci::Sli(l), .. } => {
            !l.is_empty() && l.iter().all(|e| e.0 <= 0x1fff && e.1 <= 0x1fff && e.2 <= 0x3f)
        }
        Cfg::Sr { .. } | Cfg::Rr { .. } | Cfg::Bye { .. } | Cfg::App { .. } | Cfg::Fb { .. } => true,
        _ => false,
    }
}

/// The round-trip oracle on one configuration.
pub fn check(ctx: &mut Ctx, cfg: &Cfg, how: How) {
    let _case = crate::watchdog::case_cfg("roundtrip", cfg, how);
    if !in_rfc_domain(cfg) {
        ctx.class("skipped:out-of-domain");
        return;
    }
    let ty = Ty::of_cfg(cfg).expect("typed kind");
    ctx.eval();
    let kind = cfg.kind_name();
    let case = || cfg_case("roundtrip", cfg, how);
    // The properties quantify over what the *builder* accepts. When the model says the
    // configuration is not representable and the builder accepts it anyway, the round trip is
    // still owed; the violated rule(s) become part of the signature.
    let viol = repr::violations(cfg);
    let unrep: String = if viol.is_empty() {
        String::new()
    } else {
        let mut names: Vec<&str> = viol.iter().map(|r| r.name()).collect();
        names.sort();
        names.dedup();
        format!(";accepted-although:{}", names.join("+"))
    };
    let bytes = match build_bytes(cfg, how) {
        Ok(b) => b,
        Err(WOut::Err(e)) => {
            // the builder rejected the configuration: whether rightly is C16's business, not ours
            ctx.class_dyn(format!("builder-rejected:{kind}:{}", crate::drive::variant_name(&format!("{e:?}"))));
            return;
        }
        Err(other) => {
            ctx.violate(
                "serialise",
                kind,
                &format!("{}{unrep}", other.class()),
                case,
                "an accepted configuration serialises (write_into returns Ok(calculate_size))",
                format!("write_into gives {}", other.render()),
            );
            return;
        }
    };
    ctx.class_dyn(format!("built:{kind}:{}:{}", if cfg.padding() > 0 { "padded" } else { "unpadded" }, how_name(how)));
    if !viol.is_empty() {
        ctx.class_dyn(format!("built-although-unrepresentable:{kind}{unrep}"));
    }
    let data = crate::drive::exact(&bytes);
    match parse_typed(ty, &data) {
        Err(p) => ctx.violate(
            "parse-back",
            kind,
            &format!("{}{unrep}", crate::drive::panic_feature(&p)),
            case,
            "the matching parser accepts the bytes and every accessor returns",
            format!("panic at {}: {} (bytes {})", crate::drive::short_site(&p.site), p.msg, crate::json::hex(&bytes[..bytes.len().min(80)])),
        ),
        Ok(Err(e)) => ctx.violate(
            "parser-accepts",
            kind,
            &format!("{}{unrep}", crate::drive::variant_name(&format!("{e:?}"))),
            case,
            "the matching parser accepts the bytes the builder wrote",
            format!("{}::parse fails with {e:?} on {}", ty.name(), crate::json::hex(&bytes[..bytes.len().min(80)])),
        ),
        Ok(Ok(parsed)) => {
            let want_pad = if cfg.padding() == 0 { None } else { Some(cfg.padding()) };
            if parsed.padding != want_pad {
                ctx.violate(
                    "padding",
                    kind,
                    &format!("padding-accessor{unrep}"),
                    case,
                    format!("padding() == {want_pad:?}"),
                    format!("padding() == {:?}", parsed.padding),
                );
            }
            let exp = expect::content(cfg).expect("typed content");
            if let Err(why) = expect::same(&exp, &parsed.content, false) {
                // discriminate by the field that differs (text before the first ':')
                let field: String = why.split(':').next().unwrap_or("content").chars().filter(|c| !c.is_ascii_digit()).collect::<String>().trim().replace("  ", " ");
                ctx.violate(
                    "content",
                    kind,
                    &format!("{field}{unrep}"),
                    case,
                    "the parsed view reports exactly what was configured",
                    format!("{why} (bytes {})", crate::json::hex(&bytes[..bytes.len().min(80)])),
                );
            }
            ctx.nontrivial(hash_of(cfg));
            ctx.sample_sparse(20_011, || {
                crate::json::J::obj().set("cfg", cfg.shape()).set("how", how_name(how)).set("bytes", bytes.len())
            });
        }
    }
}

fn hows(i: usize) -> How {
    crate::drive::hows(i)
}

const PADS4: [u8; 4] = [0, 4, 8, 252];

fn boundary_rb(k: usize) -> Rb {
    const V: [u32; 6] = [0, 1, 0x7fff_ffff, 0x8000_0000, 0xffff_ffff, 0x0100_0001];
    Rb {
        ssrc: V[k % 6],
        fraction: [0u8, 0xff, 1, 0x80][k % 4],
        cumulative: [0u32, 0xff_ffff, 1, 0x80_0000, 0x7f_ffff][k % 5],
        ext_seq: V[(k + 1) % 6],
        jitter: V[(k + 2) % 6],
        lsr: V[(k + 3) % 6],
        dlsr: V[(k + 4) % 6],
    }
}

// ------------------------------------------------------------------ C02
pub fn run_c02(ctx: &mut Ctx, shard: usize, nshards: usize) {
    let mut idx = 0usize;
    // sweep: blocks 0..=31 × all 64 paddings × boundary field values
    for nb in 0..=31usize {
        for p in (0..=252u16).step_by(4) {
            idx += 1;
            if idx % nshards != shard || (ctx.scale < 0.5 && idx % 97 != 0) {
                continue;
            }
            let blocks: Vec<Rb> = (0..nb).map(|k| boundary_rb(k + nb + p as usize)).collect();
            let h = hows(idx / nshards);
            check(ctx, &Cfg::Rr { ssrc: boundary_rb(nb).ssrc, blocks: blocks.clone(), padding: p as u8 }, h);
            check(
                ctx,
                &Cfg::Sr {
                    ssrc: boundary_rb(nb + 1).ssrc,
                    ntp: [0u64, u64::MAX, 1 << 63, 0x0123_4567_89ab_cdef][nb % 4],
                    rtp: boundary_rb(nb + 2).ssrc,
                    pc: boundary_rb(nb + 3).ssrc,
                    oc: boundary_rb(nb + 4).ssrc,
                    blocks,
                    padding: p as u8,
                },
                h,
            );
        }
    }
    let n = ctx.n(if ctx.thorough { 400_000 } else { 12_000 });
    let mut s = Src::prng(mix(ctx.seed, 0xc02 + shard as u64));
    for i in 0..n {
        let m = if i % 4 >= 2 { Mix::Limit } else { Mix::Valid };
        let c = if i % 2 == 0 { cfgs::sr(&mut s, m) } else { cfgs::rr(&mut s, m) };
        check(ctx, &c, hows(i));
    }
    relational(ctx, shard, nshards, &["sr", "rr"]);
}

pub fn floor_c02(ctx: &Ctx) -> Vec<(String, bool)> {
    let mut f = vec![];
    for k in ["sr", "rr"] {
        for p in ["padded", "unpadded"] {
            let seen = ctx.all_classes().iter().any(|(c, _)| c.starts_with(&format!("built:{k}:{p}:")));
            f.push((format!("built:{k}:{p}"), seen));
        }
    }
    f
}

// ------------------------------------------------------------------ C03
fn ascii(n: usize, seed: usize) -> String {
    (0..n).map(|i| (b'a' + ((i + seed) % 26) as u8) as char).collect()
}

pub fn run_c03(ctx: &mut Ctx, shard: usize, nshards: usize) {
    let mut idx = 0usize;
    let ssrcs: [u32; 10] =
        [0, 1, 0xff, 0xff00, 0xff_ffff, 0x00ff_00ff, 0xff00_ff00, 0x0100_0000, 0x0001_0000, 0xdead_beef];
    let mut go = |ctx: &mut Ctx, c: Cfg| {
        idx += 1;
        if idx % nshards == shard && (ctx.scale >= 0.5 || idx % 193 == 0) {
            check(ctx, &c, hows(idx / nshards));
        }
    };
    // 1–3 chunks; every residue of the chunk length mod 4; short final item at
    // every distance from the packet end; second-chunk SSRC byte patterns
    for nchunks in 1..=3usize {
        for l0 in 0..=8usize {
            for last in 0..=8usize {
                for (si, &ssrc2) in ssrcs.iter().enumerate() {
                    for &p in &PADS4 {
                        if ctx.scale < 0.5 && (l0 + last + si) % 5 != 0 {
                            continue;
                        }
                        let mut chunks = vec![];
                        for k in 0..nchunks {
                            let ssrc = if k == 1 { ssrc2 } else { ssrcs[(k + si + 3) % 10] };
                            let vl = if k + 1 == nchunks { last } else { l0 + k };
                            let mut items = vec![Item { type_: 1 + (k as u8 % 7), prefix: vec![], value: ascii(vl, k) }];
                            if (l0 + last) % 3 == 0 {
                                items.insert(0, Item { type_: 2, prefix: vec![], value: ascii(l0, 7) });
                            }
                            chunks.push(Chunk { ssrc, items });
                        }
                        go(ctx, Cfg::Sdes { chunks, padding: p });
                    }
                }
            }
        }
    }
    // chunks without items (incl. SSRC 0), 0 chunks, 31 chunks
    for n in [0usize, 1, 2, 31] {
        for &p in &PADS4 {
            go(
                ctx,
                Cfg::Sdes { chunks: (0..n).map(|k| Chunk { ssrc: ssrcs[k % 10], items: vec![] }).collect(), padding: p },
            );
            go(
                ctx,
                Cfg::Sdes {
                    chunks: (0..n)
                        .map(|k| Chunk {
                            ssrc: ssrcs[(k + 1) % 10],
                            items: vec![Item { type_: 1, prefix: vec![], value: ascii(k % 7, k) }],
                        })
                        .collect(),
                    padding: p,
                },
            );
        }
    }
    // value lengths 0..=255, single item, types 1 and 9
    for l in 0..=255usize {
        for t in [1u8, 9, 255] {
            go(
                ctx,
                Cfg::Sdes {
                    chunks: vec![Chunk { ssrc: 0x0102_0304, items: vec![Item { type_: t, prefix: vec![], value: ascii(l, l) }] }],
                    padding: PADS4[l % 4],
                },
            );
        }
    }
    // every PRIV split prefix+value <= 254 (stride in quick)
    let step = if ctx.thorough { 1 } else { 3 };
    for pl in (0..=254usize).step_by(step) {
        for vl in (0..=254 - pl).step_by(step) {
            go(
                ctx,
                Cfg::Sdes {
                    chunks: vec![Chunk {
                        ssrc: 0x0a0b_0c0d,
                        items: vec![Item {
                            type_: 8,
                            prefix: (0..pl).map(|i| (i * 7 + vl) as u8).collect(),
                            value: ascii(vl, pl),
                        }],
                    }],
                    padding: PADS4[(pl + vl) % 4],
                },
            );
        }
    }
    // PRIV followed by another item and another chunk (prefix bytes that look like structure)
    for pl in 0..=6usize {
        for vl in 0..=6usize {
            for pat in [0u8, 1, 8, 0xff] {
                go(
                    ctx,
                    Cfg::Sdes {
                        chunks: vec![
                            Chunk {
                                ssrc: 1,
                                items: vec![
                                    Item { type_: 8, prefix: vec![pat; pl], value: ascii(vl, 0) },
                                    Item { type_: 1, prefix: vec![], value: ascii(vl, 1) },
                                ],
                            },
                            Chunk { ssrc: 0x0000_0102, items: vec![Item { type_: 8, prefix: vec![pat; vl], value: ascii(pl, 2) }] },
                        ],
                        padding: PADS4[(pl + vl) % 4],
                    },
                );
            }
        }
    }
    // values with NULs and multi-byte UTF-8
    for v in ["a\0b", "\0", "\0\0\0\0", "é", "日本語", "😀", "x\0\0\0", "\u{7f}\u{1}"] {
        for &p in &PADS4 {
            go(
                ctx,
                Cfg::Sdes {
                    chunks: vec![
                        Chunk { ssrc: 7, items: vec![Item { type_: 1, prefix: vec![], value: v.to_string() }] },
                        Chunk { ssrc: 0, items: vec![Item { type_: 8, prefix: v.as_bytes().to_vec(), value: v.to_string() }] },
                    ],
                    padding: p,
                },
            );
        }
    }
    let n = ctx.n(if ctx.thorough { 400_000 } else { 12_000 });
    let mut s = Src::prng(mix(ctx.seed, 0xc03 + shard as u64));
    for i in 0..n {
        let c = cfgs::sdes(&mut s, if i % 4 == 3 { Mix::Limit } else { Mix::Valid });
        check(ctx, &c, hows(i));
    }
    large_and_oversize(ctx, shard, nshards, "sdes");
}

/// The relational configurations (see `writers::relational_cfgs`) of the given kinds, each through all four routes.
fn relational(ctx: &mut Ctx, shard: usize, nshards: usize, kind_prefixes: &[&str]) {
    for (k, c) in crate::mon::writers::relational_cfgs().into_iter().enumerate() {
        if k % nshards != shard || (ctx.scale < 0.5 && k % 7 != 0) || !kind_prefixes.iter().any(|p| c.kind_name().starts_with(p)) {
            continue;
        }
        for h in 0..crate::drive::ROUTES {
            check(ctx, &c, hows(h));
        }
        ctx.class("relational-configuration");
    }
}

/// Images beyond 65 535 bytes, and one configuration beyond the 65 536-word limit per kind that can
/// reach it (the builder is the judge of acceptance; what it accepts must come back).
fn large_and_oversize(ctx: &mut Ctx, shard: usize, nshards: usize, kind_prefix: &str) {
    relational(ctx, shard, nshards, &[kind_prefix]);
    if ctx.scale < 0.5 {
        return;
    }
    let mut all = crate::mon::writers::large_cfgs();
    all.extend(crate::mon::writers::oversize_cfgs());
    for (k, c) in all.into_iter().enumerate() {
        if k % nshards == shard && c.kind_name().starts_with(kind_prefix) {
            check(ctx, &c, hows(k));
        }
    }
}

pub fn floor_c03(ctx: &Ctx) -> Vec<(String, bool)> {
    let all = ctx.all_classes();
    ["built:sdes:padded:", "built:sdes:unpadded:"]
        .iter()
        .map(|p| (p.to_string(), all.keys().any(|c| c.starts_with(p))))
        .collect()
}

// ------------------------------------------------------------------ C04
pub fn run_c04(ctx: &mut Ctx, shard: usize, nshards: usize) {
    let mut idx = 0usize;
    let mut go = |ctx: &mut Ctx, c: Cfg| {
        idx += 1;
        if idx % nshards == shard && (ctx.scale >= 0.5 || idx % 397 == 0) {
            check(ctx, &c, hows(idx / nshards));
        }
    };
    let src = |k: usize| [0u32, 1, 0xffff_ffff, 0x0102_0304, 0xff00_0000, 0x0000_00ff][k % 6];
    let all_pads: Vec<u8> = (0..=252u16).step_by(4).map(|p| p as u8).collect();
    // BYE: sources × reason length 0..=255 × paddings
    let (srcs, pads): (Vec<usize>, Vec<u8>) = if ctx.thorough {
        ((0..=31).collect(), all_pads.clone())
    } else {
        (vec![0, 1, 2, 31], PADS4.to_vec())
    };
    for &ns in &srcs {
        for rl in 0..=255usize {
            for &p in &pads {
                go(ctx, Cfg::Bye { sources: (0..ns).map(|k| src(k + rl)).collect(), reason: ascii(rl, ns), padding: p });
            }
        }
    }
    if !ctx.thorough {
        for ns in 0..=31usize {
            for rl in 0..=6usize {
                for &p in &all_pads {
                    go(ctx, Cfg::Bye { sources: (0..ns).map(|k| src(k)).collect(), reason: ascii(rl, ns), padding: p });
                }
            }
        }
    }
    for r in ["é", "日本", "bye\0now", "😀😀", "\0"] {
        for &p in &PADS4 {
            go(ctx, Cfg::Bye { sources: vec![1, 2], reason: r.to_string(), padding: p });
        }
    }
    // APP: names × subtype × data sizes × paddings
    for name in ["", "a", "ab", "abc", "abcd", "a\0b", "\0\0\0\0", "\0abc", "ab\0\0", "\x7f~ \x01"] {
        for subtype in [0u8, 1, 15, 16, 30, 31] {
            for dl in [0usize, 4, 8, 12, 64, 1024] {
                for &p in all_pads.iter().step_by(if ctx.thorough { 1 } else { 9 }) {
                    go(
                        ctx,
                        Cfg::App {
                            ssrc: src(dl + subtype as usize),
                            subtype,
                            name: name.to_string(),
                            data: (0..dl).map(|i| (i * 13 + p as usize) as u8).collect(),
                            padding: p,
                        },
                    );
                }
            }
        }
    }
    for subtype in 0..=31u8 {
        go(ctx, Cfg::App { ssrc: 5, subtype, name: "subt".into(), data: vec![subtype; 4], padding: 0 });
    }
    // a 200 KiB payload (still below 65536 words)
    if shard == 0 && ctx.scale >= 0.5 {
        for p in [0u8, 4, 252] {
            check(
                ctx,
                &Cfg::App { ssrc: 9, subtype: 3, name: "big!".into(), data: (0..204_800).map(|i| (i % 251) as u8).collect(), padding: p },
                How::default(),
            );
        }
    }
    let n = ctx.n(if ctx.thorough { 300_000 } else { 12_000 });
    let mut s = Src::prng(mix(ctx.seed, 0xc04 + shard as u64));
    for i in 0..n {
        let m = if i % 4 >= 2 && i % 8 >= 4 { Mix::Limit } else { Mix::Valid };
        let c = if i % 2 == 0 { cfgs::bye(&mut s, m) } else { cfgs::app(&mut s, m) };
        check(ctx, &c, hows(i));
    }
    large_and_oversize(ctx, shard, nshards, "app");
    relational(ctx, shard, nshards, &["bye"]);
}

pub fn floor_c04(ctx: &Ctx) -> Vec<(String, bool)> {
    let all = ctx.all_classes();
    ["built:bye:padded:", "built:bye:unpadded:", "built:app:padded:", "built:app:unpadded:"]
        .iter()
        .map(|p| (p.to_string(), all.keys().any(|c| c.starts_with(p))))
        .collect()
}

// ------------------------------------------------------------------ C05
pub fn run_c05(ctx: &mut Ctx, shard: usize, nshards: usize) {
    let mut idx = 0usize;
    let mut go = |ctx: &mut Ctx, kind: FbKind, fci: Fci, p: u8| {
        idx += 1;
        if idx % nshards == shard && (ctx.scale >= 0.5 || idx % 397 == 0) {
            let c = Cfg::Fb {
                kind,
                sender: [0u32, 1, 0xffff_ffff, 0x0102_0304][idx % 4],
                media: [0xffff_ffffu32, 0, 0x8000_0000, 7][idx % 4],
                fci,
                padding: p,
            };
            check(ctx, &c, hows(idx / nshards));
        }
    };
    let pads3 = [0u8, 4, 252];
    // NACK: runs of 1..=40 at several bases, gaps of 15..18, ends of the number space
    for base in [0u16, 1, 100, 65535 - 45, 65500, 0x7ff0] {
        for run in 1..=40u16 {
            for &p in &pads3 {
                go(ctx, FbKind::Transport, Fci::Nack((0..run).map(|i| base.wrapping_add(i)).filter(|x| *x >= base).collect()), p);
            }
        }
    }
    for gap in [15u16, 16, 17, 18, 32, 33, 34] {
        for n in 1..=8u16 {
            for base in [0u16, 7, 65535 - 8 * 34] {
                go(ctx, FbKind::Transport, Fci::Nack((0..n).map(|i| base + i * gap).collect()), pads3[(gap + n) as usize % 3]);
            }
        }
    }
    go(ctx, FbKind::Transport, Fci::Nack(vec![0, 65535]), 0);
    go(ctx, FbKind::Transport, Fci::Nack(vec![65535]), 4);
    go(ctx, FbKind::Transport, Fci::Nack(vec![65519, 65535]), 0);
    go(ctx, FbKind::Transport, Fci::Nack(vec![65518, 65535]), 0);
    go(ctx, FbKind::Transport, Fci::Nack(vec![]), 0);
    go(ctx, FbKind::Transport, Fci::Nack(vec![]), 8);
    if shard == 0 && ctx.thorough {
        // the full set, once
        check(
            ctx,
            &Cfg::Fb { kind: FbKind::Transport, sender: 1, media: 2, fci: Fci::Nack((0..=65535u16).collect()), padding: 0 },
            How::default(),
        );
    }
    // PLI
    for &p in &[0u8, 4, 8, 252] {
        go(ctx, FbKind::Payload, Fci::Pli, p);
    }
    // RPSI: every length 0..=64 × ignored bits 0..=8 × paddings
    for len in 0..=64usize {
        for ign in 0..=8u8 {
            if len == 0 && ign > 0 {
                continue;
            }
            for &p in &pads3 {
                for pat in [0xffu8, 0xa5] {
                    go(
                        ctx,
                        FbKind::Payload,
                        Fci::Rpsi { pt: (len as u8 * 3 + ign) & 0x7f, bits: (0..len).map(|i| pat ^ (i as u8)).collect(), overrun: ign },
                        p,
                    );
                }
            }
        }
    }
    for len in [65usize, 127, 128, 255, 256, 1000, 4093] {
        go(ctx, FbKind::Payload, Fci::Rpsi { pt: 127, bits: vec![0xff; len], overrun: (len % 9) as u8 }, pads3[len % 3]);
    }
    // FIR maps and SLI lists of 1..=200 entries
    for n in (1..=200usize).step_by(if ctx.thorough { 1 } else { 7 }) {
        for &p in &pads3 {
            go(
                ctx,
                FbKind::Payload,
                Fci::Fir((0..n).map(|i| ((i as u32).wrapping_mul(0x0101_0101) ^ n as u32, (i * 7 + n) as u8)).collect()),
                p,
            );
            go(
                ctx,
                FbKind::Payload,
                Fci::Sli(
                    (0..n)
                        .map(|i| (((i * 41 + n) & 0x1fff) as u16, ((0x1fff - i * 3) & 0x1fff) as u16, ((i + n) & 0x3f) as u8))
                        .collect(),
                ),
                p,
            );
        }
    }
    for e in [(0u16, 0u16, 0u8), (0x1fff, 0x1fff, 0x3f), (0x1000, 1, 0x20), (1, 0x1000, 1), (0x0aaa, 0x1555, 0x2a)] {
        go(ctx, FbKind::Payload, Fci::Sli(vec![e]), 0);
        go(ctx, FbKind::Payload, Fci::Sli(vec![e, e]), 4);
    }
    go(ctx, FbKind::Payload, Fci::Fir(vec![(1, 1), (2, 2), (1, 9)]), 0);
    go(ctx, FbKind::Payload, Fci::Fir(vec![(0, 0)]), 4);
    go(ctx, FbKind::Payload, Fci::Fir(vec![(0xffff_ffff, 0xff)]), 252);

    let n = ctx.n(if ctx.thorough { 300_000 } else { 12_000 });
    let mut s = Src::prng(mix(ctx.seed, 0xc05 + shard as u64));
    for i in 0..n {
        let k = ["tfb-nack", "pfb-pli", "pfb-sli", "pfb-rpsi", "pfb-fir"][i % 5];
        let c = cfgs::of_kind(&mut s, k, if i % 20 >= 15 { Mix::Limit } else { Mix::Valid }, 0);
        check(ctx, &c, hows(i));
    }
    large_and_oversize(ctx, shard, nshards, "pfb-");
    relational(ctx, shard, nshards, &["tfb-"]);
    if shard == 1 % nshards && ctx.scale >= 0.5 {
        // dense random sets up to 5000
        let mut s = Src::prng(mix(ctx.seed, 0xc05_5000));
        for _ in 0..4 {
            let n = s.range(1000, 5000);
            let l: Vec<u16> = (0..n).map(|_| s.u16()).collect();
            check(ctx, &Cfg::Fb { kind: FbKind::Transport, sender: 3, media: 4, fci: Fci::Nack(l), padding: 4 }, How::default());
        }
    }
}

pub fn floor_c05(ctx: &Ctx) -> Vec<(String, bool)> {
    let all = ctx.all_classes();
    let mut f = vec![];
    for k in ["tfb-nack", "pfb-pli", "pfb-sli", "pfb-rpsi", "pfb-fir"] {
        for p in ["padded", "unpadded"] {
            // on a tree where padded feedback cannot be built the class is absent and a violation is reported instead
            let c = format!("built:{k}:{p}:");
            f.push((c.clone(), all.keys().any(|x| x.starts_with(&c)) || !ctx.violation_counts.is_empty()));
        }
    }
    f
}
