//! C01 – parsing untrusted bytes never panics and always terminates.
//!
//! Refuting events: an unwind out of any parse entry point or out of any
//! accessor / conversion / iterator of a value a parser returned; an iterator
//! yielding more than `8*len+8` items; (from the other tiers) a sanitizer or
//! Miri report, or a CPU-time-confirmed hang.

use crate::ctx::{bytes_case, fnv, Ctx};
use crate::drive::{call, exact, short_site};
use crate::gen::bytes as gb;
use crate::obs;
use crate::source::{mix, Src};
use rtcp_types::prelude::*;
use rtcp_types::*;
use std::cell::Cell;

thread_local! {
    static STAGE: Cell<&'static str> = const { Cell::new("") };
}
pub fn set_stage(s: &'static str) {
    STAGE.with(|c| c.set(s))
}
macro_rules! st {
    ($s:expr) => {
        $crate::mon::c01::set_stage($s)
    };
}
pub(crate) use st;

pub fn stage() -> &'static str {
    STAGE.with(|c| c.get())
}

pub const PERR: [&str; 10] = [
    "UnsupportedVersion",
    "Truncated",
    "TooLarge",
    "InvalidPadding",
    "SdesValueTooLarge",
    "SdesPrivContentTruncated",
    "SdesPrivPrefixTooLarge",
    "WrongImplementation",
    "PacketTypeMismatch",
    "variant-unknown-to-the-harness",
];
// not exhaustive on purpose: the crate may grow error variants without breaking this harness
#[allow(unreachable_patterns)]
pub fn perr_idx(e: &RtcpParseError) -> usize {
    match e {
        RtcpParseError::UnsupportedVersion(_) => 0,
        RtcpParseError::Truncated { .. } => 1,
        RtcpParseError::TooLarge { .. } => 2,
        RtcpParseError::InvalidPadding => 3,
        RtcpParseError::SdesValueTooLarge { .. } => 4,
        RtcpParseError::SdesPrivContentTruncated { .. } => 5,
        RtcpParseError::SdesPrivPrefixTooLarge { .. } => 6,
        RtcpParseError::WrongImplementation => 7,
        RtcpParseError::PacketTypeMismatch { .. } => 8,
        _ => 9,
    }
}

pub const ENTRIES: [&str; 16] = [
    "Compound",
    "Packet",
    "App",
    "Bye",
    "Sdes",
    "SenderReport",
    "ReceiverReport",
    "TransportFeedback",
    "PayloadFeedback",
    "Unknown",
    "ReportBlock",
    "Nack",
    "Pli",
    "Sli",
    "Rpsi",
    "Fir",
];

fn class_table() -> &'static Vec<Vec<&'static str>> {
    static T: std::sync::OnceLock<Vec<Vec<&'static str>>> = std::sync::OnceLock::new();
    T.get_or_init(|| {
        ENTRIES
            .iter()
            .map(|e| {
                let mut row: Vec<&'static str> = vec![Box::leak(format!("parse:{e}:ok").into_boxed_str())];
                for p in PERR {
                    row.push(Box::leak(format!("parse:{e}:err:{p}").into_boxed_str()));
                }
                row
            })
            .collect()
    })
}

/// run the closures in an order derived from `order`
fn run_perm(acc: &[(&'static str, &dyn Fn())], order: u64) {
    let n = acc.len();
    if n == 0 {
        return;
    }
    // an odd multiplier stepping through all residues when coprime with n
    let mut step = (order as usize % n).max(1);
    while gcd(step, n) != 1 {
        step += 1;
    }
    let start = (order >> 17) as usize % n;
    for k in 0..n {
        let (name, f) = acc[(start + k * step) % n];
        st!(name);
        f();
    }
}
fn gcd(a: usize, b: usize) -> usize {
    if b == 0 {
        a
    } else {
        gcd(b, a % b)
    }
}

macro_rules! hdr_acc {
    ($p:expr, $t:literal) => {
        [
            (concat!($t, "::version"), &|| {
                $p.version();
            }),
            (concat!($t, "::type_"), &|| {
                $p.type_();
            }),
            (concat!($t, "::subtype"), &|| {
                $p.subtype();
            }),
            (concat!($t, "::count"), &|| {
                $p.count();
            }),
            (concat!($t, "::length"), &|| {
                $p.length();
            }),
        ]
    };
}

fn battery_app(p: &App, order: u64) {
    let h: [(&'static str, &dyn Fn()); 5] = hdr_acc!(p, "App");
    let a: [(&'static str, &dyn Fn()); 6] = [
        ("App::padding", &|| {
            p.padding();
        }),
        ("App::ssrc", &|| {
            p.ssrc();
        }),
        ("App::name", &|| {
            p.name();
        }),
        ("App::get_name_string", &|| {
            let _ = p.get_name_string();
        }),
        ("App::data", &|| {
            p.data();
        }),
        ("App::debug", &|| {
            let _ = format!("{p:?}");
        }),
    ];
    let all: Vec<_> = h.iter().chain(a.iter()).copied().collect();
    run_perm(&all, order);
    st!("App::clone-eq");
    assert!(p.clone() == *p, "clone differs from original");
    st!("App::obs");
    let _ = obs::app(p);
}

fn battery_bye(p: &Bye, order: u64, bound: usize) {
    let h: [(&'static str, &dyn Fn()); 5] = hdr_acc!(p, "Bye");
    let a: [(&'static str, &dyn Fn()); 5] = [
        ("Bye::padding", &|| {
            p.padding();
        }),
        ("Bye::ssrcs", &|| {
            obs::drain_exercised(|| p.ssrcs(), bound);
        }),
        ("Bye::reason", &|| {
            p.reason();
        }),
        ("Bye::get_reason_string", &|| {
            let _ = p.get_reason_string();
        }),
        ("Bye::debug", &|| {
            let _ = format!("{p:?}");
        }),
    ];
    let all: Vec<_> = h.iter().chain(a.iter()).copied().collect();
    run_perm(&all, order);
    st!("Bye::clone-eq");
    assert!(p.clone() == *p, "clone differs from original");
    st!("Bye::obs");
    let _ = obs::bye(p, bound);
}

fn battery_rb(b: &ReportBlock) {
    st!("ReportBlock::accessors");
    let _ = obs::rb(b);
    st!("ReportBlock::debug");
    let _ = format!("{b:?}");
    st!("ReportBlock::eq");
    assert!(*b == *b);
}

fn battery_sr(p: &SenderReport, order: u64, bound: usize) {
    let h: [(&'static str, &dyn Fn()); 5] = hdr_acc!(p, "SenderReport");
    let a: [(&'static str, &dyn Fn()); 9] = [
        ("SenderReport::padding", &|| {
            p.padding();
        }),
        ("SenderReport::n_reports", &|| {
            p.n_reports();
        }),
        ("SenderReport::ssrc", &|| {
            p.ssrc();
        }),
        ("SenderReport::ntp_timestamp", &|| {
            p.ntp_timestamp();
        }),
        ("SenderReport::rtp_timestamp", &|| {
            p.rtp_timestamp();
        }),
        ("SenderReport::packet_count", &|| {
            p.packet_count();
        }),
        ("SenderReport::octet_count", &|| {
            p.octet_count();
        }),
        ("SenderReport::report_blocks", &|| {
            for b in obs::drain_exercised(|| p.report_blocks(), bound) {
                battery_rb(&b);
            }
        }),
        ("SenderReport::debug", &|| {
            let _ = format!("{p:?}");
        }),
    ];
    let all: Vec<_> = h.iter().chain(a.iter()).copied().collect();
    run_perm(&all, order);
    st!("SenderReport::clone-eq");
    assert!(p.clone() == *p, "clone differs from original");
    st!("SenderReport::obs");
    let _ = obs::sr(p, bound);
}

fn battery_rr(p: &ReceiverReport, order: u64, bound: usize) {
    let h: [(&'static str, &dyn Fn()); 5] = hdr_acc!(p, "ReceiverReport");
    let a: [(&'static str, &dyn Fn()); 5] = [
        ("ReceiverReport::padding", &|| {
            p.padding();
        }),
        ("ReceiverReport::n_reports", &|| {
            p.n_reports();
        }),
        ("ReceiverReport::ssrc", &|| {
            p.ssrc();
        }),
        ("ReceiverReport::report_blocks", &|| {
            for b in obs::drain_exercised(|| p.report_blocks(), bound) {
                battery_rb(&b);
            }
        }),
        ("ReceiverReport::debug", &|| {
            let _ = format!("{p:?}");
        }),
    ];
    let all: Vec<_> = h.iter().chain(a.iter()).copied().collect();
    run_perm(&all, order);
    st!("ReceiverReport::clone-eq");
    assert!(p.clone() == *p, "clone differs from original");
    st!("ReceiverReport::obs");
    let _ = obs::rr(p, bound);
}

fn battery_sdes(p: &Sdes, order: u64, bound: usize) {
    let h: [(&'static str, &dyn Fn()); 5] = hdr_acc!(p, "Sdes");
    let a: [(&'static str, &dyn Fn()); 3] = [
        ("Sdes::padding", &|| {
            p.padding();
        }),
        ("Sdes::chunks", &|| {
            for c in obs::drain(p.chunks(), bound) {
                st!("SdesChunk::ssrc");
                c.ssrc();
                st!("SdesChunk::length");
                c.length();
                st!("SdesChunk::items");
                for i in obs::drain(c.items(), bound) {
                    st!("SdesItem::type_");
                    let t = i.type_();
                    st!("SdesItem::length");
                    i.length();
                    st!("SdesItem::value");
                    i.value();
                    st!("SdesItem::get_value_string");
                    let _ = i.get_value_string();
                    if t == SdesItem::PRIV {
                        st!("SdesItem::priv_prefix_len");
                        i.priv_prefix_len();
                        st!("SdesItem::priv_prefix");
                        i.priv_prefix();
                    }
                    st!("SdesItem::debug-clone-eq");
                    let _ = format!("{i:?}");
                    assert!(i.clone() == *i);
                }
                st!("SdesChunk::debug-clone-eq");
                let _ = format!("{c:?}");
                assert!(c.clone() == *c);
            }
        }),
        ("Sdes::debug", &|| {
            let _ = format!("{p:?}");
        }),
    ];
    let all: Vec<_> = h.iter().chain(a.iter()).copied().collect();
    run_perm(&all, order);
    st!("Sdes::clone-eq");
    assert!(p.clone() == *p, "clone differs from original");
    st!("Sdes::obs");
    let _ = obs::sdes(p, bound);
}

macro_rules! battery_fb {
    ($name:ident, $T:ty, $t:literal, $obs:path) => {
        fn $name(p: &$T, order: u64, bound: usize) {
            let h: [(&'static str, &dyn Fn()); 5] = hdr_acc!(p, $t);
            let a: [(&'static str, &dyn Fn()); 9] = [
                (concat!($t, "::padding"), &|| {
                    p.padding();
                }),
                (concat!($t, "::sender_ssrc"), &|| {
                    p.sender_ssrc();
                }),
                (concat!($t, "::media_ssrc"), &|| {
                    p.media_ssrc();
                }),
                (concat!($t, "::parse_fci<Nack>"), &|| {
                    if let Ok(n) = p.parse_fci::<Nack>() {
                        st!(concat!($t, "::parse_fci<Nack>::entries"));
                        obs::nack_entries(&n, bound);
                    }
                }),
                (concat!($t, "::parse_fci<Pli>"), &|| {
                    if let Ok(x) = p.parse_fci::<Pli>() {
                        let _ = format!("{x:?}");
                    }
                }),
                (concat!($t, "::parse_fci<Sli>"), &|| {
                    if let Ok(x) = p.parse_fci::<Sli>() {
                        st!(concat!($t, "::parse_fci<Sli>::lost_macroblocks"));
                        obs::drain_exercised(|| x.lost_macroblocks(), bound);
                        let _ = format!("{x:?}");
                    }
                }),
                (concat!($t, "::parse_fci<Rpsi>"), &|| {
                    if let Ok(x) = p.parse_fci::<Rpsi>() {
                        st!(concat!($t, "::parse_fci<Rpsi>::payload_type"));
                        x.payload_type();
                        st!(concat!($t, "::parse_fci<Rpsi>::bit_string"));
                        x.bit_string();
                        let _ = format!("{x:?}");
                    }
                }),
                (concat!($t, "::parse_fci<Fir>"), &|| {
                    if let Ok(x) = p.parse_fci::<Fir>() {
                        st!(concat!($t, "::parse_fci<Fir>::entries"));
                        for e in obs::drain_exercised(|| x.entries(), bound) {
                            e.ssrc();
                            e.sequence();
                            let _ = format!("{e:?}");
                        }
                    }
                }),
                (concat!($t, "::debug"), &|| {
                    let _ = format!("{p:?}");
                }),
            ];
            let all: Vec<_> = h.iter().chain(a.iter()).copied().collect();
            run_perm(&all, order);
            st!(concat!($t, "::clone-eq"));
            assert!(p.clone() == *p, "clone differs from original");
            st!(concat!($t, "::obs"));
            let _ = $obs(p, bound);
        }
    };
}
battery_fb!(battery_tfb, TransportFeedback, "TransportFeedback", obs::tfb);
battery_fb!(battery_pfb, PayloadFeedback, "PayloadFeedback", obs::pfb);

fn battery_unknown<'a>(p: &'a Unknown<'a>, order: u64) {
    let h: [(&'static str, &dyn Fn()); 5] = hdr_acc!(p, "Unknown");
    let a: [(&'static str, &dyn Fn()); 9] = [
        ("Unknown::data", &|| {
            p.data();
        }),
        ("Unknown::try_as<App>", &|| {
            let _ = p.try_as::<App>();
        }),
        ("Unknown::try_as<Bye>", &|| {
            let _ = p.try_as::<Bye>();
        }),
        ("Unknown::try_as<Sdes>", &|| {
            let _ = p.try_as::<Sdes>();
        }),
        ("Unknown::try_as<SenderReport>", &|| {
            let _ = p.try_as::<SenderReport>();
        }),
        ("Unknown::try_as<ReceiverReport>", &|| {
            let _ = p.try_as::<ReceiverReport>();
        }),
        ("Unknown::try_as<TransportFeedback>", &|| {
            let _ = p.try_as::<TransportFeedback>();
        }),
        ("Unknown::try_as<PayloadFeedback>", &|| {
            let _ = p.try_as::<PayloadFeedback>();
        }),
        ("Unknown::debug-eq", &|| {
            let _ = format!("{p:?}");
            assert!(*p == *p);
        }),
    ];
    let all: Vec<_> = h.iter().chain(a.iter()).copied().collect();
    run_perm(&all, order);
}

fn unknown_owned_conversions(b: &[u8]) {
    macro_rules! conv {
        ($T:ty, $n:literal) => {
            st!(concat!("TryFrom<Unknown> for ", $n));
            if let Ok(u) = Unknown::parse(b) {
                let _ = <$T>::try_from(u);
            }
        };
    }
    conv!(App, "App");
    conv!(Bye, "Bye");
    conv!(Sdes, "Sdes");
    conv!(SenderReport, "SenderReport");
    conv!(ReceiverReport, "ReceiverReport");
    conv!(TransportFeedback, "TransportFeedback");
    conv!(PayloadFeedback, "PayloadFeedback");
}

fn battery_packet<'a>(p: &'a Packet<'a>, order: u64, bound: usize) {
    let h: [(&'static str, &dyn Fn()); 5] = hdr_acc!(p, "Packet");
    let a: [(&'static str, &dyn Fn()); 16] = [
        ("Packet::is_unknown", &|| {
            p.is_unknown();
        }),
        ("Packet::debug", &|| {
            let _ = format!("{p:?}");
        }),
        ("Packet::try_as<App>", &|| {
            let _ = p.try_as::<App>();
        }),
        ("Packet::try_as<Bye>", &|| {
            let _ = p.try_as::<Bye>();
        }),
        ("Packet::try_as<Sdes>", &|| {
            let _ = p.try_as::<Sdes>();
        }),
        ("Packet::try_as<SenderReport>", &|| {
            let _ = p.try_as::<SenderReport>();
        }),
        ("Packet::try_as<ReceiverReport>", &|| {
            let _ = p.try_as::<ReceiverReport>();
        }),
        ("Packet::try_as<TransportFeedback>", &|| {
            let _ = p.try_as::<TransportFeedback>();
        }),
        ("Packet::try_as<PayloadFeedback>", &|| {
            let _ = p.try_as::<PayloadFeedback>();
        }),
        ("TryFrom<&Packet> for App", &|| {
            let _ = App::try_from(p);
        }),
        ("TryFrom<&Packet> for Bye", &|| {
            let _ = Bye::try_from(p);
        }),
        ("TryFrom<&Packet> for Sdes", &|| {
            let _ = Sdes::try_from(p);
        }),
        ("TryFrom<&Packet> for SenderReport", &|| {
            let _ = SenderReport::try_from(p);
        }),
        ("TryFrom<&Packet> for ReceiverReport", &|| {
            let _ = ReceiverReport::try_from(p);
        }),
        ("TryFrom<&Packet> for TransportFeedback", &|| {
            let _ = TransportFeedback::try_from(p);
        }),
        ("TryFrom<&Packet> for PayloadFeedback", &|| {
            let _ = PayloadFeedback::try_from(p);
        }),
    ];
    let all: Vec<_> = h.iter().chain(a.iter()).copied().collect();
    run_perm(&all, order);
    st!("Packet::content");
    match p {
        Packet::App(x) => battery_app(x, order),
        Packet::Bye(x) => battery_bye(x, order, bound),
        Packet::Rr(x) => battery_rr(x, order, bound),
        Packet::Sdes(x) => battery_sdes(x, order, bound),
        Packet::Sr(x) => battery_sr(x, order, bound),
        Packet::TransportFeedback(x) => battery_tfb(x, order, bound),
        Packet::PayloadFeedback(x) => battery_pfb(x, order, bound),
        Packet::Unknown(x) => battery_unknown(x, order),
    }
}

fn packet_owned_conversions(b: &[u8]) {
    macro_rules! conv {
        ($T:ty, $n:literal) => {
            st!(concat!("TryFrom<Packet> for ", $n));
            if let Ok(p) = Packet::parse(b) {
                if let Ok(t) = <$T>::try_from(p) {
                    st!(concat!("From<", $n, "> for Packet"));
                    let back = Packet::from(t);
                    let _ = format!("{back:?}");
                }
            }
        };
    }
    conv!(App, "App");
    conv!(Bye, "Bye");
    conv!(Sdes, "Sdes");
    conv!(SenderReport, "SenderReport");
    conv!(ReceiverReport, "ReceiverReport");
    conv!(TransportFeedback, "TransportFeedback");
    conv!(PayloadFeedback, "PayloadFeedback");
    st!("From<Unknown> for Packet");
    if let Ok(u) = Unknown::parse(b) {
        let p = Packet::from(u);
        let _ = format!("{p:?}");
    }
}

/// The whole C01 oracle on one byte string.
pub fn check(ctx: &mut Ctx, input: &[u8]) {
    let data = exact(input);
    let b: &[u8] = &data;
    let _case = crate::watchdog::case_bytes("c01", b);
    let _no_iter_assert = obs::no_iter_assert();
    let bound = obs::bound_for(b.len());
    let order = mix(fnv(b), ctx.seed);
    ctx.eval();

    // input-shape classes for the floor
    match b.len() {
        0 => ctx.class("input:len=0"),
        l if l % 4 != 0 => ctx.class("input:len%4!=0"),
        l if l > 65536 => ctx.class("input:len>64KiB"),
        _ => {}
    }
    if b.len() >= 8 && b[0] >> 6 == 2 && b[0] & 0x20 != 0 {
        let body = b.len() - 4;
        if b[b.len() - 1] as usize > body && 4 * (u16::from_be_bytes([b[2], b[3]]) as usize + 1) == b.len() {
            match b[1] {
                204 => ctx.class("input:P-count>body:App"),
                203 => ctx.class("input:P-count>body:Bye"),
                202 => ctx.class("input:P-count>body:Sdes"),
                200 => ctx.class("input:P-count>body:SenderReport"),
                201 => ctx.class("input:P-count>body:ReceiverReport"),
                205 => ctx.class("input:P-count>body:TransportFeedback"),
                206 => ctx.class("input:P-count>body:PayloadFeedback"),
                _ => {}
            }
        }
    }

    let table = class_table();
    let mut accepted_any = false;

    macro_rules! entry {
        ($idx:expr, $body:expr) => {{
            st!("parse");
            let r: Result<Result<(), usize>, _> = call(|| $body);
            match r {
                Ok(Ok(())) => {
                    accepted_any = true;
                    ctx.class(table[$idx][0]);
                }
                Ok(Err(e)) => ctx.class(table[$idx][1 + e]),
                Err(p) => {
                    let stage = stage();
                    let clause = if p.msg.starts_with(obs::STEP_BOUND_MSG) { "step-bound" } else { "no-panic" };
                    ctx.violate(
                        clause,
                        ENTRIES[$idx],
                        stage,
                        || bytes_case("c01", b),
                        "every parse entry point and every accessor returns normally within the step bound",
                        format!("after {}::parse, at {}: panic at {}: {}", ENTRIES[$idx], stage, short_site(&p.site), p.msg),
                    );
                }
            }
        }};
    }

    entry!(0, {
        match Compound::parse(b) {
            Err(e) => Err(perr_idx(&e)),
            Ok(mut c) => {
                st!("Compound::debug");
                let _ = format!("{c:?}");
                st!("Compound::next");
                let mut n = 0usize;
                while let Some(r) = c.next() {
                    n += 1;
                    if n > bound {
                        panic!("{}: compound iterator yielded more than {bound} items", obs::STEP_BOUND_MSG);
                    }
                    if let Ok(p) = r {
                        battery_packet(&p, order, bound);
                    }
                    st!("Compound::next");
                }
                for _ in 0..3 {
                    st!("Compound::next-after-end");
                    let _ = c.next();
                }
                // the provided Iterator methods an implementation may override, and the adaptors std builds on them,
                // also with positions at and beyond the end of the datagram ("every public ... iterator returns normally")
                st!("Compound::count/last/size_hint");
                if let Ok(c) = Compound::parse(b) {
                    let _ = c.size_hint();
                    let _ = c.take(bound).count();
                }
                if let Ok(c) = Compound::parse(b) {
                    let _ = c.take(bound).last();
                }
                for k in [0usize, 1, n.saturating_sub(1), n, n + 1, n + 9] {
                    st!("Compound::nth");
                    if let Ok(mut c) = Compound::parse(b) {
                        let _ = c.nth(k);
                        let _ = c.nth(k);
                        let _ = c.next();
                    }
                    st!("Compound::skip");
                    if let Ok(c) = Compound::parse(b) {
                        let _ = c.skip(k).take(bound).count();
                    }
                    st!("Compound::step_by");
                    if let Ok(c) = Compound::parse(b) {
                        let _ = c.step_by(k + 1).take(bound).count();
                    }
                }
                Ok(())
            }
        }
    });
    entry!(1, {
        match Packet::parse(b) {
            Err(e) => Err(perr_idx(&e)),
            Ok(p) => {
                battery_packet(&p, order, bound);
                battery_packet(&p, order.rotate_left(23) ^ 0x5555, bound);
                packet_owned_conversions(b);
                Ok(())
            }
        }
    });
    entry!(2, {
        match App::parse(b) {
            Err(e) => Err(perr_idx(&e)),
            Ok(p) => {
                battery_app(&p, order);
                battery_app(&p, !order);
                Ok(())
            }
        }
    });
    entry!(3, {
        match Bye::parse(b) {
            Err(e) => Err(perr_idx(&e)),
            Ok(p) => {
                battery_bye(&p, order, bound);
                battery_bye(&p, !order, bound);
                Ok(())
            }
        }
    });
    entry!(4, {
        match Sdes::parse(b) {
            Err(e) => Err(perr_idx(&e)),
            Ok(p) => {
                battery_sdes(&p, order, bound);
                battery_sdes(&p, !order, bound);
                Ok(())
            }
        }
    });
    entry!(5, {
        match SenderReport::parse(b) {
            Err(e) => Err(perr_idx(&e)),
            Ok(p) => {
                battery_sr(&p, order, bound);
                battery_sr(&p, !order, bound);
                Ok(())
            }
        }
    });
    entry!(6, {
        match ReceiverReport::parse(b) {
            Err(e) => Err(perr_idx(&e)),
            Ok(p) => {
                battery_rr(&p, order, bound);
                battery_rr(&p, !order, bound);
                Ok(())
            }
        }
    });
    entry!(7, {
        match TransportFeedback::parse(b) {
            Err(e) => Err(perr_idx(&e)),
            Ok(p) => {
                battery_tfb(&p, order, bound);
                battery_tfb(&p, !order, bound);
                Ok(())
            }
        }
    });
    entry!(8, {
        match PayloadFeedback::parse(b) {
            Err(e) => Err(perr_idx(&e)),
            Ok(p) => {
                battery_pfb(&p, order, bound);
                battery_pfb(&p, !order, bound);
                Ok(())
            }
        }
    });
    entry!(9, {
        match Unknown::parse(b) {
            Err(e) => Err(perr_idx(&e)),
            Ok(p) => {
                battery_unknown(&p, order);
                battery_unknown(&p, !order);
                unknown_owned_conversions(b);
                Ok(())
            }
        }
    });
    entry!(10, {
        match ReportBlock::parse(b) {
            Err(e) => Err(perr_idx(&e)),
            Ok(p) => {
                battery_rb(&p);
                Ok(())
            }
        }
    });
    entry!(11, {
        match <Nack as FciParser>::parse(b) {
            Err(e) => Err(perr_idx(&e)),
            Ok(p) => {
                st!("Nack::entries");
                obs::nack_entries(&p, bound);
                obs::nack_entries(&p, bound);
                Ok(())
            }
        }
    });
    entry!(12, {
        match <Pli as FciParser>::parse(b) {
            Err(e) => Err(perr_idx(&e)),
            Ok(p) => {
                st!("Pli::debug");
                let _ = format!("{p:?}");
                Ok(())
            }
        }
    });
    entry!(13, {
        match <Sli as FciParser>::parse(b) {
            Err(e) => Err(perr_idx(&e)),
            Ok(p) => {
                st!("Sli::lost_macroblocks");
                obs::drain(p.lost_macroblocks(), bound);
                obs::drain(p.lost_macroblocks(), bound);
                st!("Sli::debug");
                let _ = format!("{p:?}");
                Ok(())
            }
        }
    });
    entry!(14, {
        match <Rpsi as FciParser>::parse(b) {
            Err(e) => Err(perr_idx(&e)),
            Ok(p) => {
                st!("Rpsi::payload_type");
                p.payload_type();
                st!("Rpsi::bit_string");
                p.bit_string();
                st!("Rpsi::debug");
                let _ = format!("{p:?}");
                Ok(())
            }
        }
    });
    entry!(15, {
        match <Fir as FciParser>::parse(b) {
            Err(e) => Err(perr_idx(&e)),
            Ok(p) => {
                st!("Fir::entries");
                obs::fir_entries(&p, bound);
                obs::fir_entries(&p, bound);
                Ok(())
            }
        }
    });

    // FCI length residues (raw FCI entry points see the whole string as FCI)
    match b.len() % 8 {
        0 => ctx.class("fci-len%8=0"),
        1 => ctx.class("fci-len%8=1"),
        2 => ctx.class("fci-len%8=2"),
        3 => ctx.class("fci-len%8=3"),
        4 => ctx.class("fci-len%8=4"),
        5 => ctx.class("fci-len%8=5"),
        6 => ctx.class("fci-len%8=6"),
        _ => ctx.class("fci-len%8=7"),
    }

    if accepted_any {
        ctx.nontrivial(fnv(b));
        ctx.sample_sparse(100_003, || {
            crate::json::J::obj().set("len", b.len()).set("hex", crate::json::hex(&b[..b.len().min(96)]))
        });
    }
}

/// Classes that must have been observed for a run to report "held".
pub fn floor(ctx: &Ctx) -> Vec<(String, bool)> {
    let mut f = vec![];
    for e in ENTRIES {
        let ok = ctx.class_count(&format!("parse:{e}:ok")) > 0;
        f.push((format!("parse:{e}:ok"), ok));
        let rej = PERR.iter().any(|p| ctx.class_count(&format!("parse:{e}:err:{p}")) > 0);
        // Nack::parse accepts every string by design: no rejection class exists for it
        if e != "Nack" {
            f.push((format!("parse:{e}:err:*"), rej));
        }
    }
    for c in ["input:len=0", "input:len%4!=0", "input:len>64KiB"] {
        f.push((c.to_string(), ctx.class_count(c) > 0));
    }
    for t in ["App", "Bye", "Sdes", "SenderReport", "ReceiverReport", "TransportFeedback", "PayloadFeedback"] {
        let c = format!("input:P-count>body:{t}");
        f.push((c.clone(), ctx.class_count(&c) > 0));
    }
    for r in 0..8 {
        let c = format!("fci-len%8={r}");
        f.push((c.clone(), ctx.class_count(&c) > 0));
    }
    f
}

/// FCI bodies of every length 0..=40 (three fills) on their own and behind each feedback header,
/// RPSI with every PB value on the short ones.
fn fci_lengths(ctx: &mut Ctx) {
    for len in 0..=40usize {
        for fill in [0u8, 0xff, 0x5a] {
            let fci = vec![fill; len];
            check(ctx, &fci);
            for (pt, fmt) in [(205u8, 1u8), (206, 1), (206, 2), (206, 3), (206, 4)] {
                let mut v = vec![0x80 | fmt, pt, 0, 0, 0, 0, 0, 1, 0, 0, 0, 2];
                v.extend_from_slice(&fci);
                while v.len() % 4 != 0 {
                    v.push(fill);
                }
                gb::fix_len(&mut v);
                check(ctx, &v);
                // RPSI with every PB for short bodies
                if fmt == 3 && len >= 2 && len <= 12 && fill == 0 {
                    for pb in 0..=255u8 {
                        v[12] = pb;
                        check(ctx, &v);
                    }
                }
                // the same control information in front of a padding trailer whose count is and is not a multiple of 4
                if len % 4 == 0 && fill != 0 {
                    for pad in [1u8, 2, 3, 4, 5, 7, 8] {
                        let mut w = v.clone();
                        w[0] |= 0x20;
                        w.extend_from_slice(&[fill; 8]);
                        let n = w.len();
                        w[n - 1] = pad;
                        gb::fix_len(&mut w);
                        check(ctx, &w);
                    }
                }
            }
        }
    }
}

/// The sanitizer slice of the *quick* check (AddressSanitizer, ~4x): every input family of the full
/// workload, sampled instead of enumerated, so that it costs seconds. A read outside the input that
/// changes no result is invisible to every value oracle; it is an event only under a sanitizer.
fn run_mid(ctx: &mut Ctx, shard: usize, nshards: usize) {
    let mut s = Src::prng(mix(ctx.seed, 0xc01_a5a4 + shard as u64));
    gb::header_space_sample(&mut s, ctx.n(60_000), &mut |b| check(ctx, b));
    let n = gb::sdes_small_alphabet(1, shard, nshards, &mut |b| check(ctx, b));
    ctx.class_add("exhaustive:sdes-bodies(1 word over {0,1,2,8} x 3 ssrc prefixes x padding 0/4/8 x SC)", n);
    let mut v = Vec::new();
    let mut k = 0usize;
    for l in 0..=255usize {
        for p in 0..=255usize {
            k += 1;
            // a thinned (length, prefix length) triangle: every pair near the diagonal and the edges, one in 16 elsewhere
            let near = l <= 2 || p <= 2 || l >= 253 || p >= 253 || (l as isize - p as isize).abs() <= 2;
            if (near || k % 16 == 0) && k % nshards == shard {
                gb::sdes_priv_packet(&mut v, l, p);
                check(ctx, &v);
            }
        }
    }
    if shard == 0 {
        fci_lengths(ctx);
        let mut v = vec![0x80u8, 203, 0, 0];
        v.resize(65540, 0);
        check(ctx, &v);
    }
    for i in 0..ctx.n(80_000) {
        let v = if i % 4 == 0 { gb::valid_packet(&mut s) } else { gb::hostile(&mut s) };
        check(ctx, &v);
    }
}

/// The interpreter-tier (Miri, ~100 operations/s) workload for one shard: a direct sample of each
/// input family instead of the enumerations, a few hundred strings in total across 16 shards.
fn run_tiny(ctx: &mut Ctx, shard: usize, nshards: usize) {
    let mut s = Src::prng(mix(ctx.seed, 0xc01_7177 + shard as u64));
    let n = ctx.n(5_000).min(40);
    gb::header_space_sample(&mut s, n, &mut |b| check(ctx, b));
    // FCI lengths: this shard's residues, one fill each
    for len in (0..=40usize).filter(|l| l % nshards == shard) {
        let fill = [0u8, 0xff, 0x5a][len % 3];
        let fci = vec![fill; len];
        check(ctx, &fci);
        let (pt, fmt) = [(205u8, 1u8), (206, 1), (206, 2), (206, 3), (206, 4)][(len / nshards.max(1)) % 5];
        let mut v = vec![0x80 | fmt, pt, 0, 0, 0, 0, 0, 1, 0, 0, 0, 2];
        v.extend_from_slice(&fci);
        while v.len() % 4 != 0 {
            v.push(fill);
        }
        gb::fix_len(&mut v);
        check(ctx, &v);
    }
    // a few small-alphabet SDES bodies, PRIV pairs and valid packets / hostile strings
    let mut v = Vec::new();
    for (l, p) in [(1usize, 1usize), (5, 2), (3, 3), (s.below(40), s.below(40)), (255, 255)] {
        if (l + p) % nshards == shard % nshards || nshards == 1 {
            gb::sdes_priv_packet(&mut v, l, p);
            check(ctx, &v);
        }
    }
    for i in 0..n {
        let v = if i % 3 == 0 { gb::valid_packet(&mut s) } else { gb::hostile(&mut s) };
        if v.len() <= 512 {
            check(ctx, &v);
        }
    }
    if shard == 0 {
        let mut v = vec![0x80u8, 203, 0, 0];
        v.resize(8196, 0);
        gb::fix_len(&mut v);
        check(ctx, &v);
    }
}

/// The C01 workload for one shard.
pub fn run(ctx: &mut Ctx, shard: usize, nshards: usize) {
    if ctx.scale < 0.1 {
        return run_tiny(ctx, shard, nshards);
    }
    if ctx.scale < 0.5 {
        return run_mid(ctx, shard, nshards);
    }
    let thorough = ctx.thorough;
    // (a) exhaustive header space (thinned over non-version-2 first bytes in quick)
    if ctx.scale >= 0.5 {
        let stride = if thorough { 1 } else { 4 };
        let n = gb::header_space(shard, nshards, stride, &mut |b| check(ctx, b));
        ctx.class_add(if stride == 1 { "exhaustive:header-space(all first bytes x 11 types x length field 0..=12 x actual length 0..=52 x 4 fills)" } else { "exhaustive:header-space(version-2 first bytes in full, others strided by 4)" }, n);
    } else {
        // tiny tiers (Miri): a thin deterministic slice of the header space
        let mut k = 0u64;
        let want = ctx.n(4000) as u64;
        gb::header_space(shard, nshards, 1, &mut |b| {
            k += 1;
            if k % 9973 == 1 && k / 9973 < want {
                check(ctx, b)
            }
        });
    }
    // (d2, d3) relational inputs: > 65 535 tiles, inputs beyond 65 536 words, every PRIV (length, prefix) pair
    if ctx.scale >= 0.5 {
        let n = gb::relational_inputs(shard, nshards, &mut |b| check(ctx, b));
        ctx.class_add("relational-inputs(>65535 tiles; inputs beyond 65536 words x 7 length fields x 11 types)", n);
        let n = gb::sdes_priv_pairs(shard, nshards, &mut |b| check(ctx, b));
        ctx.class_add("exhaustive:sdes-priv(all 65536 (length, prefix length) pairs)", n);
    }
    // (e) small-alphabet SDES bodies
    let words = if ctx.scale < 0.5 { 1 } else if thorough { 3 } else { 2 };
    if ctx.scale >= 0.5 {
        let n = gb::sdes_small_alphabet(words, shard, nshards, &mut |b| check(ctx, b));
        ctx.class_add(&format!("exhaustive:sdes-bodies({words} words over {{0,1,2,8}} x 3 ssrc prefixes x padding 0/4/8 x SC)"), n);
    }
    // FCI lengths 0..=40 behind each feedback header, three fills
    if shard == 0 {
        fci_lengths(ctx);
        // (d) large inputs
        if ctx.scale >= 0.5 {
            gb::large_inputs(&mut |b| check(ctx, b));
        } else {
            let mut v = vec![0x80u8, 203, 0, 0];
            v.resize(65540, 0);
            check(ctx, &v);
        }
    }
    // (b)+(c) seeded hostile strings
    let n = ctx.n(if thorough { 1_500_000 } else { 120_000 });
    let mut s = Src::prng(mix(ctx.seed, 0xc01 + shard as u64));
    for _ in 0..n {
        let v = gb::hostile(&mut s);
        check(ctx, &v);
    }
}
