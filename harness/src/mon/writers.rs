//! Builder-side monitors that share one configuration workload:
//! C06 (announced size == written size), C07 (wire layout == independent
//! encoder), C16 (accept iff representable), C17 (define every claimed byte,
//! touch nothing else).

use crate::cfg::*;
use crate::ctx::{cfg_case, hash_of, Ctx};
use crate::drive::{calc, call, variant_name, with_writer, write, How, WOut};
use crate::gen::cfgs::{self, Mix};
use crate::json::{hex, J};
use crate::model::{dec, enc, repr};
use crate::source::{mix, Src};
use rtcp_types::RtcpWriteError;
use std::sync::atomic::{AtomicBool, Ordering};

pub fn hows(i: usize) -> How {
    crate::drive::hows(i)
}
fn pk(cfg: &Cfg) -> &'static str {
    if cfg.padding() > 0 {
        "padded"
    } else {
        "unpadded"
    }
}

// ============================================================== workload

fn base_cfgs() -> Vec<Cfg> {
    let rb1 = Rb { ssrc: 0x0102_0304, fraction: 0x11, cumulative: 0x22_3344, ext_seq: 5, jitter: 6, lsr: 7, dlsr: 8 };
    let it = |t: u8, p: &[u8], v: &str| Item { type_: t, prefix: p.to_vec(), value: v.to_string() };
    vec![
        Cfg::Sr { ssrc: 1, ntp: 0x0102_0304_0506_0708, rtp: 9, pc: 10, oc: 11, blocks: vec![], padding: 0 },
        Cfg::Sr { ssrc: 1, ntp: 2, rtp: 3, pc: 4, oc: 5, blocks: vec![rb1.clone(), rb1.clone()], padding: 0 },
        Cfg::Rr { ssrc: 1, blocks: vec![], padding: 0 },
        Cfg::Rr { ssrc: 1, blocks: vec![rb1.clone()], padding: 0 },
        Cfg::Sdes { chunks: vec![], padding: 0 },
        Cfg::Sdes { chunks: vec![Chunk { ssrc: 1, items: vec![it(1, &[], "cname")] }], padding: 0 },
        Cfg::Sdes {
            chunks: vec![
                Chunk { ssrc: 1, items: vec![it(1, &[], "ab"), it(8, b"pre", "val")] },
                Chunk { ssrc: 0x0000_0100, items: vec![it(2, &[], "")] },
            ],
            padding: 0,
        },
        Cfg::Bye { sources: vec![], reason: String::new(), padding: 0 },
        Cfg::Bye { sources: vec![1, 2], reason: String::new(), padding: 0 },
        Cfg::Bye { sources: vec![1], reason: "bye".into(), padding: 0 },
        Cfg::Bye { sources: vec![1], reason: "goodbye!".into(), padding: 0 },
        Cfg::App { ssrc: 1, subtype: 3, name: "name".into(), data: vec![], padding: 0 },
        Cfg::App { ssrc: 1, subtype: 31, name: "ab".into(), data: vec![1, 2, 3, 4, 5, 6, 7, 8], padding: 0 },
        Cfg::Fb { kind: FbKind::Transport, sender: 1, media: 2, fci: Fci::Nack(vec![10, 11, 30]), padding: 0 },
        Cfg::Fb { kind: FbKind::Transport, sender: 1, media: 2, fci: Fci::Nack(vec![]), padding: 0 },
        Cfg::Fb { kind: FbKind::Payload, sender: 1, media: 2, fci: Fci::Pli, padding: 0 },
        Cfg::Fb { kind: FbKind::Payload, sender: 1, media: 2, fci: Fci::Sli(vec![(1, 2, 3)]), padding: 0 },
        Cfg::Fb { kind: FbKind::Payload, sender: 1, media: 2, fci: Fci::Sli(vec![]), padding: 0 },
        Cfg::Fb { kind: FbKind::Payload, sender: 1, media: 2, fci: Fci::Rpsi { pt: 96, bits: vec![0xff, 0xee], overrun: 3 }, padding: 0 },
        Cfg::Fb { kind: FbKind::Payload, sender: 1, media: 2, fci: Fci::Rpsi { pt: 96, bits: vec![], overrun: 0 }, padding: 0 },
        Cfg::Fb { kind: FbKind::Payload, sender: 1, media: 2, fci: Fci::Fir(vec![(7, 1)]), padding: 0 },
        Cfg::Fb { kind: FbKind::Payload, sender: 1, media: 2, fci: Fci::Fir(vec![]), padding: 0 },
        // wrong pairings
        Cfg::Fb { kind: FbKind::Payload, sender: 1, media: 2, fci: Fci::Nack(vec![1]), padding: 0 },
        Cfg::Fb { kind: FbKind::Transport, sender: 1, media: 2, fci: Fci::Pli, padding: 0 },
        Cfg::Fb { kind: FbKind::Transport, sender: 1, media: 2, fci: Fci::Sli(vec![(1, 2, 3)]), padding: 0 },
        Cfg::Fb { kind: FbKind::Transport, sender: 1, media: 2, fci: Fci::Rpsi { pt: 1, bits: vec![1, 2], overrun: 0 }, padding: 0 },
        Cfg::Fb { kind: FbKind::Transport, sender: 1, media: 2, fci: Fci::Fir(vec![(1, 1)]), padding: 0 },
        Cfg::Unknown { pt: 199, count: 0, data: vec![], padding: 0 },
        Cfg::Unknown { pt: 210, count: 31, data: vec![1, 2, 3, 4], padding: 0 },
        Cfg::Custom { pt: 207, min: 8, count: 2, body: vec![9, 9, 9, 9], padding: 0 },
        Cfg::Custom { pt: 0, min: 4, count: 0, body: vec![], padding: 0 },
    ]
}

/// Configurations whose image is larger than 65 535 bytes (the byte count no longer fits 16 bits
/// although the 16-bit *word* count still does): one per builder kind that can get there.
/// A well-formed SDES configuration whose image is exactly `total` bytes (`pad` of them padding): one chunk whose items
/// and terminator fill it completely. None when no such chunk exists.
pub fn sdes_of_exactly(total: usize, pad: u8) -> Option<Cfg> {
    // sum(items) == total - pad - 8 (header, SSRC) - 1 (terminator)
    let mut left = total.checked_sub(pad as usize + 9)?;
    let mut items = vec![];
    while left >= 257 + 2 || left == 257 {
        items.push(Item { type_: 1 + (items.len() % 7) as u8, prefix: vec![], value: "m".repeat(255) });
        left -= 257;
    }
    if left > 257 {
        items.push(Item { type_: 3, prefix: vec![], value: "y".repeat(100) });
        left -= 102;
    }
    if left >= 2 {
        items.push(Item { type_: 2, prefix: vec![], value: "z".repeat(left - 2) });
        left = 0;
    }
    if left != 0 {
        return None;
    }
    Some(Cfg::Sdes { chunks: vec![Chunk { ssrc: 0x0a0b_0c0d, items }], padding: pad })
}

pub fn large_cfgs() -> Vec<Cfg> {
    let mut v = vec![];
    // the largest SDES packets there are: 65 536 words (length field 0xffff) and one word less
    v.extend(sdes_of_exactly(262_144, 0));
    v.extend(sdes_of_exactly(262_140, 0));
    for total in [65_532usize, 65_536, 65_540, 131_076, 262_144] {
        v.push(Cfg::App { ssrc: 0xa1a2_a3a4, subtype: 7, name: "LARG".into(), data: (0..total - 12).map(|i| (i * 7 + 3) as u8).collect(), padding: 0 });
        v.push(Cfg::Unknown { pt: 199, count: 5, data: (0..total - 4).map(|i| (i * 5 + 1) as u8).collect(), padding: 0 });
        v.push(Cfg::Custom { pt: 207, min: 8, count: 1, body: (0..total - 4).map(|i| (i * 3 + 2) as u8).collect(), padding: 0 });
        v.push(Cfg::Fb { kind: FbKind::Payload, sender: 1, media: 2, fci: Fci::Rpsi { pt: 97, bits: (0..total - 14).map(|i| (i * 11 + 5) as u8).collect(), overrun: 0 }, padding: 0 });
        v.push(Cfg::Fb {
            kind: FbKind::Payload,
            sender: 1,
            media: 2,
            fci: Fci::Sli((0..(total - 12) / 4).map(|i| ((i & 0x1fff) as u16, ((i * 3) & 0x1fff) as u16, (i & 0x3f) as u8)).collect()),
            padding: 0,
        });
        if (total - 12) % 8 == 0 {
            v.push(Cfg::Fb { kind: FbKind::Payload, sender: 3, media: 4, fci: Fci::Fir((0..((total - 12) / 8) as u32).map(|i| (i * 2 + 1, i as u8)).collect()), padding: 0 });
        }
    }
    // sizes whose length field has the low octet 0xff or 0x00 (a carry between the two octets of the field)
    for hi in [0usize, 1, 2, 3, 7, 8, 15, 16, 31, 32, 63, 64, 127, 128] {
        for lo in [0xffusize, 0x00] {
            let total = 4 * ((hi << 8 | lo) + 1);
            if total < 16 {
                continue;
            }
            v.push(Cfg::Unknown { pt: 198, count: 2, data: (0..total - 4 - 4).map(|i| (i * 13 + 7) as u8).collect(), padding: 4 });
            v.push(Cfg::App { ssrc: 0x0102_0304, subtype: 1, name: "cary".into(), data: (0..total - 12).map(|i| (i * 17 + 1) as u8).collect(), padding: 0 });
        }
    }
    // padded variants just above the 16-bit byte boundary
    v.push(Cfg::App { ssrc: 1, subtype: 0, name: "pad".into(), data: vec![0x33; 65_536], padding: 8 });
    v.push(Cfg::Unknown { pt: 210, count: 0, data: vec![0x44; 65_532], padding: 4 });
    v.push(Cfg::Fb { kind: FbKind::Payload, sender: 1, media: 2, fci: Fci::Rpsi { pt: 1, bits: vec![0xa5; 70_001], overrun: 5 }, padding: 252 });
    // SDES: one chunk with 256 maximal items; 31 chunks with 9 maximal items each
    let big_item = |k: usize| Item { type_: 1 + (k % 7) as u8, prefix: vec![], value: "x".repeat(255) };
    v.push(Cfg::Sdes { chunks: vec![Chunk { ssrc: 0x0000_00ff, items: (0..256).map(big_item).collect() }], padding: 0 });
    v.push(Cfg::Sdes { chunks: (0..31u32).map(|c| Chunk { ssrc: c << 8, items: (0..9).map(big_item).collect() }).collect(), padding: 4 });
    // a compound whose second member starts beyond 65 535 bytes
    v.push(Cfg::Compound(vec![
        Cfg::App { ssrc: 1, subtype: 0, name: "big".into(), data: vec![0x77; 65_540], padding: 0 },
        Cfg::Rr { ssrc: 2, blocks: vec![], padding: 0 },
        Cfg::Bye { sources: vec![2], reason: "end".into(), padding: 4 },
    ]));
    v
}

/// "Relational" configurations: cases defined by a *relation between fields* or by special content,
/// which uniform sampling of each field on its own essentially never produces (two SSRCs that
/// collide, SLI runs that are contiguous, blank strings, sequence numbers at the wrap, sizes that
/// are a multiple of 256, nested compounds with several members, ...). All are valid unless noted.
pub fn relational_cfgs() -> Vec<Cfg> {
    let rb = |ssrc: u32, k: u32| Rb { ssrc, fraction: k as u8, cumulative: 0x00ab_cdef ^ k, ext_seq: 0x1111_0000 + k, jitter: 7 + k, lsr: 0x2222_0000 + k, dlsr: 0x3333_0000 + k };
    let it = |t: u8, p: &[u8], v: &str| Item { type_: t, prefix: p.to_vec(), value: v.to_string() };
    let mut v = vec![];
    // ---- SR / RR: a block about the sender itself, identical blocks, LSR 0 with DLSR != 0, all-zero and all-ones blocks
    for sender in [0u32, 1, 0xdead_beef, u32::MAX] {
        for pos in 0..3usize {
            let mut blocks: Vec<Rb> = (0..3u32).map(|k| rb(0x0101_0100 + k, k)).collect();
            blocks[pos].ssrc = sender;
            v.push(Cfg::Rr { ssrc: sender, blocks: blocks.clone(), padding: 0 });
            v.push(Cfg::Sr { ssrc: sender, ntp: 0x0102_0304_0506_0708, rtp: sender, pc: sender, oc: sender, blocks, padding: 4 });
        }
        v.push(Cfg::Rr { ssrc: sender, blocks: vec![rb(sender, 1)], padding: 0 });
        v.push(Cfg::Rr { ssrc: sender, blocks: vec![rb(7, 1), rb(7, 1), rb(7, 1)], padding: 0 });
    }
    let mut z = rb(5, 0);
    z.lsr = 0;
    v.push(Cfg::Rr { ssrc: 9, blocks: vec![z.clone(), Rb { dlsr: 0, ..z.clone() }, Rb { lsr: 1, dlsr: 0, ..z.clone() }], padding: 0 });
    v.push(Cfg::Sr { ssrc: 9, ntp: 0, rtp: 0, pc: 0, oc: 0, blocks: vec![Rb { ssrc: 0, fraction: 0, cumulative: 0, ext_seq: 0, jitter: 0, lsr: 0, dlsr: 0 }], padding: 0 });
    v.push(Cfg::Sr { ssrc: u32::MAX, ntp: u64::MAX, rtp: u32::MAX, pc: u32::MAX, oc: u32::MAX, blocks: vec![Rb { ssrc: u32::MAX, fraction: 0xff, cumulative: 0xff_ffff, ext_seq: u32::MAX, jitter: u32::MAX, lsr: u32::MAX, dlsr: u32::MAX }], padding: 252 });
    // ---- BYE: blank / control-character reasons, reasons that look like binary structure, duplicate and zero sources
    for r in [" ", "  ", "\t", "\n", " \t\r\n", "\u{a0}", "\0", "\0\0\0", " x", "x ", "\u{1}\u{2}", "\u{7f}", "    ", "\u{3000}"] {
        for ns in [0usize, 1, 2] {
            for p in [0u8, 4] {
                v.push(Cfg::Bye { sources: (0..ns as u32).map(|k| k * 0x0101_0101).collect(), reason: r.to_string(), padding: p });
            }
        }
    }
    v.push(Cfg::Bye { sources: vec![], reason: " ".repeat(255), padding: 0 });
    v.push(Cfg::Bye { sources: vec![3, 3, 3, 0, 0], reason: "\u{3}\u{0}\u{0}\u{0}".to_string(), padding: 0 });
    // ---- APP: blank names, payloads that look like headers / padding trailers
    for name in [" ", "  ", "   ", "    ", "a ", " a", "\t\t\t\t", "a\0 "] {
        v.push(Cfg::App { ssrc: 1, subtype: 1, name: name.to_string(), data: vec![], padding: 0 });
        v.push(Cfg::App { ssrc: 1, subtype: 1, name: name.to_string(), data: vec![0x80, 204, 0, 1, 0, 0, 0, 4], padding: 4 });
    }
    v.push(Cfg::App { ssrc: 0, subtype: 0, name: "\0\0\0\0".to_string(), data: vec![0; 8], padding: 0 });
    v.push(Cfg::App { ssrc: 1, subtype: 1, name: "name".into(), data: vec![0, 0, 0, 4], padding: 0 });
    v.push(Cfg::App { ssrc: 1, subtype: 1, name: "name".into(), data: vec![0xff; 256 - 12], padding: 8 });
    // ---- SDES: item-less chunks (also SSRC 0, also trailing), blank values, values full of NULs, duplicate items,
    //      values that look like item headers, chunk sizes of every residue next to an SSRC with leading zeros
    for tail_ssrc in [0u32, 1, 0x0100, 0x0001_0000, 0x0100_0000] {
        for lead in [vec![], vec![it(1, &[], "abc")], vec![it(1, &[], "ab")], vec![it(2, &[], "a")], vec![it(3, &[], "")]] {
            for pad in [0u8, 4, 8] {
                v.push(Cfg::Sdes { chunks: vec![Chunk { ssrc: 0x1122_3344, items: lead.clone() }, Chunk { ssrc: tail_ssrc, items: vec![] }], padding: pad });
                v.push(Cfg::Sdes { chunks: vec![Chunk { ssrc: 0x1122_3344, items: lead.clone() }, Chunk { ssrc: tail_ssrc, items: vec![] }, Chunk { ssrc: tail_ssrc, items: vec![] }], padding: pad });
                v.push(Cfg::Sdes { chunks: vec![Chunk { ssrc: tail_ssrc, items: vec![] }, Chunk { ssrc: 0x1122_3344, items: lead.clone() }], padding: pad });
            }
        }
    }
    for val in [" ", "   ", "\t", "\0", "\0\0\0\0\0", "\u{1}\u{3}abc", "\u{8}\u{2}\u{0}x"] {
        v.push(Cfg::Sdes { chunks: vec![Chunk { ssrc: 1, items: vec![it(1, &[], val), it(1, &[], val), it(8, val.as_bytes(), val)] }, Chunk { ssrc: 0, items: vec![it(2, &[], val)] }], padding: 0 });
    }
    // several PRIV items with the same / with different prefixes in one chunk, repeated item types
    for (p1, p2) in [(&b"ex"[..], &b"ex"[..]), (b"ex", b"ey"), (b"", b""), (b"a", b"ab")] {
        v.push(Cfg::Sdes {
            chunks: vec![Chunk { ssrc: 1, items: vec![it(8, p1, "a"), it(2, &[], "name"), it(8, p2, "b"), it(2, &[], "again")] }, Chunk { ssrc: 2, items: vec![it(8, p1, "c")] }],
            padding: 0,
        });
    }
    v.push(Cfg::Sdes { chunks: vec![Chunk { ssrc: 7, items: vec![it(8, b"ex", "a"), it(2, &[], "name"), it(8, b"ex", "b")] }], padding: 0 });
    // ---- SDES items of type 0: `SdesItem::builder` takes any `u8` and the builders accept it (C16's list has no rule
    // for it), so these are builder configurations like any other for the properties that speak about sizes, buffers
    // and histories (C06, C14, C16, C17, C20). What their RFC image or their parse would be nobody says (type 0 ends an
    // item list on the wire): C07 and the round trips leave them out.
    for val in ["", "x", "end", "four", "0123456789"] {
        for pad in [0u8, 4] {
            v.push(Cfg::Sdes { chunks: vec![Chunk { ssrc: 7, items: vec![it(0, &[], val)] }], padding: pad });
            v.push(Cfg::Sdes { chunks: vec![Chunk { ssrc: 7, items: vec![it(1, &[], "cname"), it(0, &[], val), it(2, &[], "name")] }], padding: pad });
            v.push(Cfg::Sdes { chunks: vec![Chunk { ssrc: 7, items: vec![it(0, &[], val), it(1, &[], "cname")] }, Chunk { ssrc: 8, items: vec![it(2, &[], "n")] }], padding: pad });
            v.push(Cfg::Sdes { chunks: vec![Chunk { ssrc: 7, items: vec![it(8, b"p", "v"), it(1, &[], "c"), it(0, &[], val)] }], padding: pad });
        }
    }
    v.push(Cfg::Sdes { chunks: vec![Chunk { ssrc: 7, items: vec![it(0, &[], &"z".repeat(255)), it(1, &[], "after")] }], padding: 0 });
    v.push(Cfg::Sdes { chunks: vec![Chunk { ssrc: 7, items: vec![it(0, b"pfx", "with-prefix"), it(0, &[], "")] }], padding: 0 });
    v.push(Cfg::Sdes { chunks: vec![Chunk { ssrc: 7, items: vec![it(1, &[], "one"), it(1, &[], "two"), it(1, &[], "one")] }], padding: 4 });
    // a non-PRIV item that carries a (documented to be ignored) prefix
    v.push(Cfg::Sdes { chunks: vec![Chunk { ssrc: 1, items: vec![it(1, b"pfx", "cname"), it(2, b"\0", "")] }], padding: 4 });
    // PRIV items at the edges of the (prefix, value) triangle
    for (p, l) in [(0usize, 0usize), (0, 254), (254, 0), (127, 127), (1, 253), (253, 1), (253, 0), (0, 253)] {
        v.push(Cfg::Sdes { chunks: vec![Chunk { ssrc: 1, items: vec![Item { type_: 8, prefix: vec![b'p'; p], value: "v".repeat(l) }] }, Chunk { ssrc: 2, items: vec![it(1, &[], "x")] }], padding: 0 });
    }
    // ---- SLI: contiguous runs (same picture), with and without zero counts, duplicates, reversed, 13-bit overflow of the sum
    let sli = |l: Vec<(u16, u16, u8)>, p: u8| Cfg::Fb { kind: FbKind::Payload, sender: 1, media: 2, fci: Fci::Sli(l), padding: p };
    v.push(sli(vec![(100, 20, 7), (120, 30, 7)], 0));
    v.push(sli(vec![(0x0123, 0x0011, 0x2a), (0x0134, 0x0005, 0x2a)], 4));
    v.push(sli(vec![(1200, 345, 17), (1545, 78, 17), (1623, 1, 17)], 0));
    v.push(sli(vec![(120, 30, 7), (100, 20, 7)], 0));
    v.push(sli(vec![(100, 20, 7), (120, 30, 8)], 0));
    v.push(sli(vec![(100, 20, 7), (121, 30, 7)], 0));
    v.push(sli(vec![(100, 0, 7), (100, 30, 7)], 0));
    v.push(sli(vec![(100, 20, 7), (120, 0, 7)], 0));
    v.push(sli(vec![(0, 0x1000, 1), (0x1000, 0x0fff, 1)], 0));
    v.push(sli(vec![(0, 0x1000, 1), (0x1000, 0x1000, 1)], 0));
    v.push(sli(vec![(5, 5, 5), (5, 5, 5), (5, 5, 5)], 0));
    v.push(sli(vec![(0, 0, 0), (0, 0, 0)], 0));
    v.push(sli(vec![(0x1fff, 0x1fff, 0x3f), (0x1fff, 0x1fff, 0x3f)], 252));
    v.push(sli((0..64).map(|i| (i * 4, 4, 9)).collect(), 4)); // 64 contiguous entries = 256 bytes of FCI
    // ---- FIR: SSRCs that differ in one byte, equal sequence numbers, the zero SSRC, 32 / 64 entries (256 / 512 bytes)
    let fir = |l: Vec<(u32, u8)>, p: u8| Cfg::Fb { kind: FbKind::Payload, sender: 1, media: 2, fci: Fci::Fir(l), padding: p };
    v.push(fir(vec![(0, 0), (1, 0), (0x0100, 0), (0x0001_0000, 0), (0x0100_0000, 0)], 0));
    v.push(fir(vec![(7, 1), (7, 2), (7, 3)], 0)); // re-added SSRC: the last sequence wins
    v.push(fir(vec![(7, 1), (8, 1), (7, 1)], 4));
    v.push(fir((0..32).map(|i| (i, i as u8)).collect(), 4));
    v.push(fir((0..64).map(|i| (i << 8, 0xff)).collect(), 252));
    // ---- NACK: numbers at the top of the 16-bit space, across the wrap, window edges, 64 / 128 words with padding
    let nack = |l: Vec<u16>, p: u8| Cfg::Fb { kind: FbKind::Transport, sender: 1, media: 2, fci: Fci::Nack(l), padding: p };
    v.push(nack(vec![0xfff8, 0xfffb], 0));
    v.push(nack(vec![0xfff0, 0xffff], 0));
    v.push(nack(vec![0xffef, 0xffff], 0));
    v.push(nack(vec![0xffee, 0xffff], 0));
    v.push(nack(vec![0xffff, 0], 0));
    v.push(nack(vec![0xffff, 0, 1, 16, 17], 4));
    v.push(nack((0xfff0..=0xffffu16).collect(), 0));
    v.push(nack((0xfff0..=0xffffu16).chain(0..=16).collect(), 0));
    v.push(nack(vec![65530, 65531, 65535], 0));
    v.push(nack(vec![0, 16, 17, 33, 34, 50], 0));
    v.push(nack(vec![0, 100, 101], 0));
    v.push(nack(vec![0, 100, 200, 201, 217, 218], 0));
    v.push(nack((0..19).collect(), 0));
    v.push(nack((0..64u16).map(|i| i * 17).collect(), 4)); // 64 words = 256 bytes of FCI
    v.push(nack((0..128u16).map(|i| i * 20).collect(), 252));
    v.push(nack(vec![5, 5, 5, 6, 6], 0)); // re-added numbers
    // ---- RPSI: every ignored-bit count on odd / even lengths, 254- and 510-byte strings (256 / 512 bytes of FCI) with padding
    for len in [1usize, 2, 3, 4, 5] {
        for ov in [0u8, 1, 7, 8] {
            v.push(Cfg::Fb { kind: FbKind::Payload, sender: 1, media: 2, fci: Fci::Rpsi { pt: 127, bits: vec![0xff; len], overrun: ov }, padding: if len % 2 == 0 { 4 } else { 0 } });
        }
    }
    v.push(Cfg::Fb { kind: FbKind::Payload, sender: 1, media: 2, fci: Fci::Rpsi { pt: 0, bits: vec![0x5a; 254], overrun: 0 }, padding: 8 });
    v.push(Cfg::Fb { kind: FbKind::Payload, sender: 1, media: 2, fci: Fci::Rpsi { pt: 64, bits: vec![0xa5; 510], overrun: 3 }, padding: 4 });
    // ---- self-similar payloads: a payload that is itself the image of a well-framed packet of the same type
    //      (as produced by an application that tunnels or re-wraps packets)
    for (pt, count) in [(199u8, 0u8), (199, 5), (242, 31), (207, 1)] {
        for words in [1usize, 2, 3, 8] {
            let mut inner = vec![0x80 | count, pt, 0, (words - 1) as u8];
            inner.extend((0..4 * (words - 1)).map(|i| (i as u8).wrapping_mul(29) ^ 0x5c));
            v.push(Cfg::Unknown { pt, count, data: inner.clone(), padding: 0 });
            v.push(Cfg::Unknown { pt, count: 0, data: inner.clone(), padding: 4 });
            // the same with the padding bit set inside the payload's look-alike header
            let mut padded = inner.clone();
            padded[0] |= 0x20;
            v.push(Cfg::Unknown { pt, count, data: padded, padding: 0 });
            if pt == 207 || pt == 242 || pt == 199 {
                v.push(Cfg::Custom { pt, min: 4, count, body: inner.clone(), padding: 0 });
            }
        }
    }
    {
        let inner_app = [0x83u8, 204, 0, 3, 0, 0, 0, 9, b'n', b'a', b'm', b'e', 1, 2, 3, 4];
        v.push(Cfg::App { ssrc: 9, subtype: 3, name: "name".into(), data: inner_app.to_vec(), padding: 0 });
        v.push(Cfg::App { ssrc: 9, subtype: 3, name: "name".into(), data: inner_app.to_vec(), padding: 8 });
        let inner_rpsi = [0x83u8, 206, 0, 3, 0, 0, 0, 1, 0, 0, 0, 2, 0, 96, 0xff, 0xee];
        v.push(Cfg::Fb { kind: FbKind::Payload, sender: 1, media: 2, fci: Fci::Rpsi { pt: 96, bits: inner_rpsi.to_vec(), overrun: 0 }, padding: 0 });
    }
    // ---- unknown / third-party packets with zero padding in non-last positions, empty bodies with padding
    v.push(Cfg::Unknown { pt: 199, count: 0, data: vec![], padding: 4 });
    v.push(Cfg::Unknown { pt: 207, count: 31, data: vec![], padding: 252 });
    v.push(Cfg::Custom { pt: 242, min: 4, count: 0, body: vec![], padding: 8 });
    // ---- compounds: nested compounds with several members in every position, an empty nested compound after a
    //      padded member, a third-party / unknown member (padding 0) before others
    let rr = Cfg::Rr { ssrc: 1, blocks: vec![], padding: 0 };
    let bye = Cfg::Bye { sources: vec![1], reason: "x".into(), padding: 0 };
    let byep = Cfg::Bye { sources: vec![], reason: String::new(), padding: 4 };
    let unk = Cfg::Unknown { pt: 199, count: 1, data: vec![1, 2, 3, 4], padding: 0 };
    let cus = Cfg::Custom { pt: 207, min: 8, count: 2, body: vec![9, 9, 9, 9], padding: 0 };
    let inner = Cfg::Compound(vec![unk.clone(), cus.clone()]);
    v.push(Cfg::Compound(vec![inner.clone()]));
    v.push(Cfg::Compound(vec![inner.clone(), rr.clone()]));
    v.push(Cfg::Compound(vec![rr.clone(), inner.clone()]));
    v.push(Cfg::Compound(vec![rr.clone(), inner.clone(), bye.clone()]));
    v.push(Cfg::Compound(vec![Cfg::Compound(vec![rr.clone(), bye.clone(), cus.clone()]), Cfg::Compound(vec![unk.clone(), rr.clone()])]));
    v.push(Cfg::Compound(vec![Cfg::Compound(vec![Cfg::Compound(vec![rr.clone(), bye.clone()]), unk.clone()]), bye.clone()]));
    v.push(Cfg::Compound(vec![cus.clone(), bye.clone()]));
    v.push(Cfg::Compound(vec![unk.clone(), cus.clone(), bye.clone()]));
    v.push(Cfg::Compound(vec![rr.clone(), Cfg::Compound(vec![cus.clone(), bye.clone()]), rr.clone()]));
    v.push(Cfg::Compound(vec![rr.clone(), byep.clone(), Cfg::Compound(vec![])])); // invalid: padded member followed by an empty compound
    v.push(Cfg::Compound(vec![rr.clone(), Cfg::Compound(vec![byep.clone(), Cfg::Compound(vec![])])])); // invalid as well
    v.push(Cfg::Compound(vec![Cfg::Compound(vec![]), rr.clone(), byep.clone()]));
    v.push(Cfg::Compound(vec![Cfg::Compound(vec![rr.clone(), byep.clone()]), rr.clone()])); // invalid: padding hidden at the tail of a nested compound
    v.push(Cfg::Compound(vec![rr.clone(), Cfg::Compound(vec![rr.clone(), byep.clone()])]));
    v
}

/// One configuration just beyond the 65 536-word limit (262 148 bytes) for every builder kind that can get there.
pub fn oversize_cfgs() -> Vec<Cfg> {
    let total = 262_148usize;
    // 1020 maximal items: 4 (header) + 4 (ssrc) + 1020 * 257 + 1 (terminator) = 262 149 -> 262 152 bytes
    let items: Vec<Item> = (0..1020).map(|_| Item { type_: 1, prefix: vec![], value: "v".repeat(255) }).collect();
    vec![
        Cfg::App { ssrc: 1, subtype: 0, name: "big!".into(), data: vec![0x5a; total - 12], padding: 0 },
        Cfg::Unknown { pt: 199, count: 0, data: vec![0x5a; total - 4], padding: 0 },
        Cfg::Fb { kind: FbKind::Payload, sender: 1, media: 2, fci: Fci::Rpsi { pt: 1, bits: vec![0xff; total - 14], overrun: 0 }, padding: 0 },
        Cfg::Fb { kind: FbKind::Payload, sender: 1, media: 2, fci: Fci::Sli((0..(total - 12) / 4).map(|i| ((i & 0x1fff) as u16, 1, 0)).collect()), padding: 0 },
        Cfg::Sdes { chunks: vec![Chunk { ssrc: 9, items }], padding: 0 },
        // one FIR entry more than fits (32 767 entries, 65 537 words): the one builder that has a rule for this
        Cfg::Fb { kind: FbKind::Payload, sender: 1, media: 2, fci: Fci::Fir((0..32_767u32).map(|i| (i.wrapping_mul(0x0001_0003), i as u8)).collect()), padding: 0 },
    ]
}

/// Packets that cross 65536 words only through their padding, and compounds with such a member.
pub fn oversize_padded_cfgs() -> Vec<Cfg> {
    let fir = |n: u32| Fci::Fir((0..n).map(|i| (i, i as u8)).collect());
    vec![
        // the largest FIR list that fits (32766 entries, 262 140 bytes) plus padding
        Cfg::Fb { kind: FbKind::Payload, sender: 1, media: 2, fci: fir(32_766), padding: 8 },
        Cfg::Fb { kind: FbKind::Payload, sender: 1, media: 2, fci: fir(32_766), padding: 252 },
        Cfg::Unknown { pt: 199, count: 0, data: vec![0x5a; 262_140], padding: 4 },
        Cfg::App { ssrc: 1, subtype: 0, name: "big!".into(), data: vec![0x5a; 262_132], padding: 4 },
        Cfg::Custom { pt: 207, min: 8, count: 1, body: vec![0x5a; 262_144], padding: 0 },
        Cfg::Compound(vec![Cfg::Rr { ssrc: 2, blocks: vec![], padding: 0 }, Cfg::Unknown { pt: 199, count: 0, data: vec![0x5a; 262_144], padding: 0 }]),
    ]
}

/// Deterministic sweeps + seeded random configurations.
/// `all_paddings`: sweep every u8 padding (C16) rather than only the legal ones.
pub fn workload(
    ctx: &mut Ctx,
    shard: usize,
    nshards: usize,
    salt: u64,
    all_paddings: bool,
    n_quick: usize,
    n_thorough: usize,
    f: &mut dyn FnMut(&mut Ctx, &Cfg, How),
) {
    let mut idx = 0usize;
    let tiny = ctx.scale < 0.5;
    // construction route forced by the caller (None: rotate with the case index)
    let force: std::cell::Cell<Option<usize>> = std::cell::Cell::new(None);
    let mut go = |ctx: &mut Ctx, c: &Cfg| {
        idx += 1;
        if idx % nshards == shard && (!tiny || idx % 211 == 0) {
            f(ctx, c, hows(force.get().unwrap_or(idx / nshards)));
        }
    };
    // 1. padding sweep on every builder kind (+ as the single / last member of a compound)
    for base in base_cfgs() {
        let pads: Vec<u8> =
            if all_paddings { (0..=255u16).map(|p| p as u8).collect() } else { (0..=252u16).step_by(4).map(|p| p as u8).collect() };
        for p in pads {
            let mut c = base.clone();
            c.set_padding(p);
            go(ctx, &c);
            if p % 16 == 4 || p == 252 || p == 3 {
                go(ctx, &Cfg::Compound(vec![c.clone()]));
                go(ctx, &Cfg::Compound(vec![base.clone(), c.clone()]));
                go(ctx, &Cfg::Compound(vec![c.clone(), base.clone()]));
            }
        }
    }
    // 2. variable-length tails × padding
    let pads = [0u8, 4, 8, 252];
    for l in 0..=9usize {
        for &p in &pads {
            let s: String = (0..l).map(|i| (b'a' + i as u8) as char).collect();
            for ns in [0usize, 1, 3] {
                go(ctx, &Cfg::Bye { sources: (0..ns as u32).collect(), reason: s.clone(), padding: p });
            }
            go(
                ctx,
                &Cfg::Sdes {
                    chunks: vec![Chunk { ssrc: 1, items: vec![Item { type_: 1, prefix: vec![], value: s.clone() }] }],
                    padding: p,
                },
            );
            go(
                ctx,
                &Cfg::Sdes {
                    chunks: vec![
                        Chunk { ssrc: 1, items: vec![Item { type_: 8, prefix: s.as_bytes().to_vec(), value: s.clone() }] },
                        Chunk { ssrc: 2, items: vec![Item { type_: 1, prefix: vec![], value: s.clone() }] },
                    ],
                    padding: p,
                },
            );
            if l <= 4 {
                go(ctx, &Cfg::App { ssrc: 1, subtype: l as u8, name: s.clone(), data: vec![0xab; 4 * l], padding: p });
            }
            go(ctx, &Cfg::Fb { kind: FbKind::Transport, sender: 1, media: 2, fci: Fci::Nack((0..l as u16).map(|i| i * 20).collect()), padding: p });
            go(ctx, &Cfg::Fb { kind: FbKind::Payload, sender: 1, media: 2, fci: Fci::Fir((0..l as u32).map(|i| (i, i as u8)).collect()), padding: p });
            go(ctx, &Cfg::Fb { kind: FbKind::Payload, sender: 1, media: 2, fci: Fci::Sli((0..l as u16).map(|i| (i, i + 1, i as u8)).collect()), padding: p });
        }
    }
    for l in 0..=16usize {
        for ign in [0u8, 3, 8] {
            if l == 0 && ign > 0 {
                continue;
            }
            for &p in &[0u8, 4, 8] {
                go(
                    ctx,
                    &Cfg::Fb { kind: FbKind::Payload, sender: 1, media: 2, fci: Fci::Rpsi { pt: 100, bits: vec![0xff; l], overrun: ign }, padding: p },
                );
            }
        }
    }
    // RPSI: every (length residue, ignored-bit count) through every construction route - the owned and the borrowed
    // entry points of the bit string are different code, and which pair meets which route must not be left to the
    // rotation (whose phase depends on the number of worker threads)
    if !tiny {
        for l in 0..=9usize {
            for ign in 0..=9u8 {
                for h in 0..crate::drive::ROUTES {
                    force.set(Some(h));
                    go(
                        ctx,
                        &Cfg::Fb {
                            kind: FbKind::Payload,
                            sender: 3,
                            media: 4,
                            fci: Fci::Rpsi { pt: (l as u8 * 11 + ign) & 0x7f, bits: (0..l).map(|i| 0xa5u8.rotate_left(i as u32) | 1).collect(), overrun: ign },
                            padding: if (l + ign as usize) % 3 == 0 { 4 } else { 0 },
                        },
                    );
                }
            }
        }
        force.set(None);
    }
    // 2a. relational configurations, each through all four construction routes
    for c in relational_cfgs() {
        for h in 0..crate::drive::ROUTES {
            force.set(Some(h));
            go(ctx, &c);
        }
    }
    force.set(None);
    // 2b. images larger than 65 535 bytes (skipped in the interpreter / valgrind tiers)
    if !tiny {
        for c in large_cfgs() {
            go(ctx, &c);
        }
    }
    // 3. seeded random: valid-biased and limit-biased
    let n = ctx.n(if ctx.thorough { n_thorough } else { n_quick });
    let mut s = Src::prng(mix(ctx.seed, salt.wrapping_mul(0x1_0001) + shard as u64));
    for i in 0..n {
        let c = if i % 2 == 0 { cfgs::any(&mut s, Mix::Valid) } else { cfgs::any(&mut s, Mix::Limit) };
        f(ctx, &c, hows(i / 2));
    }
}

pub fn floor_kinds(ctx: &Ctx, prefix: &str, need_err: bool) -> Vec<(String, bool)> {
    let all = ctx.all_classes();
    let mut f = vec![];
    for k in cfgs::KINDS {
        if k.starts_with("tfb-") && k != "tfb-nack" || k == "pfb-nack" {
            // wrong pairings can only ever be rejected
            if need_err {
                let c = format!("{prefix}:{k}:err");
                f.push((c.clone(), all.keys().any(|x| x.starts_with(&c))));
            }
            continue;
        }
        for p in ["padded", "unpadded"] {
            let c = format!("{prefix}:{k}:ok:{p}");
            // if a builder kind cannot be built padded on this tree, a violation is reported instead
            f.push((c.clone(), all.keys().any(|x| x.starts_with(&c)) || !ctx.violation_counts.is_empty()));
        }
        if need_err {
            let c = format!("{prefix}:{k}:err");
            f.push((c.clone(), all.keys().any(|x| x.starts_with(&c))));
        }
    }
    f
}

// ================================================================== C06

fn lens_for(n: usize) -> Vec<usize> {
    if n <= 320 {
        (0..=n + 9).collect()
    } else {
        let mut v = vec![0, 1];
        v.extend(n - 5..=n + 5);
        v.push(n + 64);
        v
    }
}

/// The size relation of C06 for one writer: `calculate_size()` against `write_into()` over buffer lengths.
fn size_relation(ctx: &mut Ctx, kind: &str, padded: &str, whole_packet: bool, fp: u64, mkcase: &dyn Fn() -> J, shape: &dyn Fn() -> J, w: &crate::drive::DynW) {
    let case = || mkcase();
    {
        let r = calc(w);
        match &r {
            WOut::WrongSize { .. } => unreachable!("calc never reports WrongSize"),
            WOut::Panic(p) => {
                ctx.violate("calculate_size-panics", kind, &crate::drive::site_file(&p.site), case, "calculate_size returns", r.render());
            }
            WOut::Ok(n) => {
                let n = *n;
                ctx.class_dyn(format!("c06:{kind}:ok:{padded}"));
                if whole_packet && n % 4 != 0 {
                    ctx.violate("size-multiple-of-4", kind, "n%4", case, "n % 4 == 0", format!("calculate_size() == {n}"));
                }
                if n > (1 << 22) {
                    return;
                }
                let lens = lens_for(n);
                let mut buf = vec![0u8; n + 64];
                for l in lens {
                    for b in buf.iter_mut() {
                        *b = 0xaa;
                    }
                    let got = write(w, &mut buf[..l]);
                    let ok = if l >= n { got == WOut::Ok(n) } else { got == WOut::Err(RtcpWriteError::OutputTooSmall(n)) };
                    if !ok {
                        let feature = match &got {
                            WOut::Panic(_) => "panic".to_string(),
                            WOut::Ok(m) => format!("returns-{}", if *m < n { "less" } else { "more" }),
                            WOut::WrongSize { .. } => "wrong-size".to_string(),
                            WOut::Err(e) => format!("err-{}", variant_name(&format!("{e:?}"))),
                        };
                        ctx.violate(
                            if l >= n { "write-large-enough" } else { "write-too-small" },
                            kind,
                            &feature,
                            || mkcase().set("buffer_len", l),
                            if l >= n { format!("calculate_size()==Ok({n}); write_into(buf[..{l}]) == Ok({n})") } else { format!("write_into(buf[..{l}]) == Err(OutputTooSmall({n}))") },
                            format!("write_into(buf[..{l}]) gives {}", got.render()),
                        );
                        break;
                    }
                }
                ctx.nontrivial(fp);
                ctx.sample_sparse(30_011, || J::obj().set("cfg", shape()).set("n", n));
            }
            WOut::Err(e) => {
                ctx.class_dyn(format!("c06:{kind}:err:{}", variant_name(&format!("{e:?}"))));
                for l in [0usize, 64, 4096] {
                    let mut buf = vec![0x55u8; l];
                    let got = write(w, &mut buf);
                    if got != r {
                        ctx.violate(
                            "same-error",
                            kind,
                            &got.class(),
                            || mkcase().set("buffer_len", l),
                            format!("calculate_size() fails with {e:?}; write_into fails with the same error"),
                            format!("write_into(buf[..{l}]) gives {}", got.render()),
                        );
                        break;
                    }
                }
                ctx.nontrivial(fp);
            }
        }
    }
}

/// An FCI builder driven as what it also is: a writer of its own (`FciBuilder: RtcpPacketWriter`).
#[derive(Debug)]
struct FciAlone<'a>(&'a dyn rtcp_types::FciBuilder<'a>);
impl<'a> rtcp_types::prelude::RtcpPacketWriter for FciAlone<'a> {
    fn calculate_size(&self) -> Result<usize, RtcpWriteError> {
        self.0.calculate_size()
    }
    fn write_into_unchecked(&self, buf: &mut [u8]) -> usize {
        self.0.write_into_unchecked(buf)
    }
    fn get_padding(&self) -> Option<u8> {
        self.0.get_padding()
    }
}

pub fn check_c06(ctx: &mut Ctx, cfg: &Cfg, how: How) {
    let _case = crate::watchdog::case_cfg("c06", cfg, how);
    ctx.eval();
    let kind = cfg.kind_name();
    with_writer(cfg, how, |w| size_relation(ctx, kind, pk(cfg), true, hash_of(cfg), &|| cfg_case("c06", cfg, how), &|| J::Str(cfg.shape()), w));
    // the FCI builder of a feedback configuration is a writer of its own as well (`FciBuilder: RtcpPacketWriter`):
    // the control information alone, no header, any length its entries make
    if let Cfg::Fb { fci, .. } = cfg {
        let made = call(|| crate::drive::mk_fci(fci));
        if let Ok(fb) = made {
            let alone = FciAlone(fb.as_dyn());
            let k = format!("{}(fci-builder-alone)", kind);
            size_relation(ctx, &k, "fci", false, hash_of(cfg) ^ 0xfc1, &|| cfg_case("c06", cfg, how).set("subject", "the FCI builder on its own"), &|| J::Str(cfg.shape()), &crate::drive::DynW(&alone));
        }
    }
    // SDES chunk and item builders have their own write_into
    if let Cfg::Sdes { chunks, .. } = cfg {
        for (ci, c) in chunks.iter().enumerate().take(4) {
            sub_builder(ctx, cfg, how, &format!("chunk{ci}"), "sdes-chunk", &|buf| {
                let b = crate::drive::mk_chunk(c, how.owned);
                b.write_into(buf)
            });
            for (ii, i) in c.items.iter().enumerate().take(4) {
                sub_builder(ctx, cfg, how, &format!("chunk{ci}.item{ii}"), "sdes-item", &|buf| {
                    let b = if how.owned { crate::drive::mk_item(i).into_owned() } else { crate::drive::mk_item(i) };
                    b.write_into(buf)
                });
            }
        }
    }
}

fn sub_builder(
    ctx: &mut Ctx,
    cfg: &Cfg,
    how: How,
    which: &str,
    kind: &'static str,
    wr: &dyn Fn(&mut [u8]) -> Result<usize, RtcpWriteError>,
) {
    let probe = call(|| wr(&mut []));
    let case = || cfg_case("c06", cfg, how).set("sub_builder", which);
    let n = match probe {
        Err(p) => {
            ctx.violate("sub-builder-panics", kind, "empty-buffer", case, "write_into(&mut []) returns", format!("panic at {}: {}", crate::drive::short_site(&p.site), p.msg));
            return;
        }
        Ok(Ok(0)) => 0,
        Ok(Ok(m)) => {
            ctx.violate("sub-builder-size", kind, "wrote-into-empty", case, "Err(OutputTooSmall(n))", format!("Ok({m}) on an empty buffer"));
            return;
        }
        Ok(Err(RtcpWriteError::OutputTooSmall(n))) => n,
        Ok(Err(e)) => {
            // invalid item: every buffer must give the same error
            ctx.class_dyn(format!("c06:{kind}:err:{}", variant_name(&format!("{e:?}"))));
            for l in [1usize, 64, 600] {
                let mut b = vec![0u8; l];
                match call(|| wr(&mut b)) {
                    Ok(Err(e2)) if e2 == e => {}
                    other => {
                        ctx.violate("same-error", kind, "sub-builder", case, format!("Err({e:?}) for every buffer"), format!("buffer of {l}: {other:?}"));
                        break;
                    }
                }
            }
            return;
        }
    };
    ctx.class_dyn(format!("c06:{kind}:ok"));
    if n > 4096 {
        return;
    }
    for l in 0..=n + 9 {
        let mut b = vec![0xaau8; l];
        let got = call(|| wr(&mut b));
        let ok = match &got {
            Ok(Ok(m)) => l >= n && *m == n,
            Ok(Err(RtcpWriteError::OutputTooSmall(m))) => l < n && *m == n,
            _ => false,
        };
        if !ok {
            ctx.violate(
                if l >= n { "write-large-enough" } else { "write-too-small" },
                kind,
                "sub-builder",
                || cfg_case("c06", cfg, how).set("sub_builder", which).set("buffer_len", l),
                format!("announced size {n}: Ok({n}) iff buffer >= {n}, else OutputTooSmall({n})"),
                format!("buffer of {l}: {got:?}"),
            );
            break;
        }
    }
}

pub fn run_c06(ctx: &mut Ctx, shard: usize, nshards: usize) {
    // configurations above 65536 words: as long as size calculation accepts them (open finding D13, which is C16's),
    // "writing into any buffer of length >= n succeeds, returns n and never panics" is owed for them as well
    if ctx.scale >= 0.5 {
        let mut v = oversize_cfgs();
        v.extend(oversize_padded_cfgs());
        for (i, c) in v.iter().enumerate() {
            if i % nshards == shard {
                check_c06(ctx, c, hows(i));
                ctx.class("c06:oversize(>65536 words)");
            }
        }
    }
    workload(ctx, shard, nshards, 0xc06, false, 20_000, 600_000, &mut |ctx, c, h| check_c06(ctx, c, h));
}
pub fn floor_c06(ctx: &Ctx) -> Vec<(String, bool)> {
    let mut f = floor_kinds(ctx, "c06", true);
    let all = ctx.all_classes();
    for c in ["c06:sdes-chunk:ok", "c06:sdes-item:ok", "c06:sdes-item:err"] {
        f.push((c.to_string(), all.keys().any(|x| x.starts_with(c))));
    }
    f
}

// ================================================================== C07

/// Canonical form of an image for comparison under C07's two relaxations
/// (FIR entry order; NACK word choice). Non-tileable images are returned as is.
pub fn canon(img: &[u8]) -> Vec<u8> {
    canon_with(img, true)
}

/// FIR entries may be written in any order (the builder keeps them in a hash map): canonical
/// form that only sorts FIR entries.
pub fn canon_fir_only(img: &[u8]) -> Vec<u8> {
    canon_with(img, false)
}

fn canon_with(img: &[u8], nack: bool) -> Vec<u8> {
    let Some(tiles) = dec::tiling(img) else { return img.to_vec() };
    let mut out = Vec::with_capacity(img.len());
    for (a, b) in tiles {
        let t = &img[a..b];
        let pad = if t[0] & 0x20 != 0 { t[t.len() - 1] as usize } else { 0 };
        if t.len() >= 12 && t[1] == 206 && t[0] & 0x1f == 4 && pad + 12 <= t.len() && (t.len() - 12 - pad) % 8 == 0 {
            out.extend_from_slice(&t[..12]);
            let mut entries: Vec<&[u8]> = t[12..t.len() - pad].chunks(8).collect();
            entries.sort();
            for e in entries {
                out.extend_from_slice(e);
            }
            out.extend_from_slice(&t[t.len() - pad..]);
        } else if nack && t.len() >= 12 && t[1] == 205 && t[0] & 0x1f == 1 && pad + 12 <= t.len() {
            out.extend_from_slice(&t[..12]);
            let fci = &t[12..t.len() - pad];
            let words = fci.len() / 4;
            out.extend_from_slice(&(words as u32).to_be_bytes());
            let pids: Vec<u16> = fci.chunks_exact(4).map(|w| dec::be16(w, 0)).collect();
            out.push(pids.windows(2).all(|w| w[0] < w[1]) as u8);
            let decoded = dec::nack(fci);
            let mut set = decoded.clone();
            set.sort_unstable();
            set.dedup();
            out.push((set.len() == decoded.len()) as u8); // each number once
            for s in set {
                out.extend_from_slice(&s.to_be_bytes());
            }
            out.extend_from_slice(&fci[words * 4..]);
            out.extend_from_slice(&t[t.len() - pad..]);
        } else {
            out.extend_from_slice(t);
        }
    }
    out
}

/// model images admissible for cfg: the primary one plus, for RPSI with 8
/// ignored bits, the minimal image that drops the fully ignored byte.
fn model_images(cfg: &Cfg) -> Vec<Vec<u8>> {
    match cfg {
        Cfg::Compound(members) => {
            let mut imgs: Vec<Vec<u8>> = vec![vec![]];
            for m in members {
                let alts = model_images(m);
                let mut next = vec![];
                for base in &imgs {
                    for a in alts.iter().take(if imgs.len() >= 8 { 1 } else { 2 }) {
                        let mut v = base.clone();
                        v.extend_from_slice(a);
                        next.push(v);
                    }
                }
                imgs = next;
            }
            imgs
        }
        Cfg::Fb { kind, sender, media, fci: Fci::Rpsi { pt, bits, overrun }, padding } if *overrun == 8 && !bits.is_empty() => {
            let alt = Cfg::Fb {
                kind: *kind,
                sender: *sender,
                media: *media,
                fci: Fci::Rpsi { pt: *pt, bits: bits[..bits.len() - 1].to_vec(), overrun: 0 },
                padding: *padding,
            };
            vec![enc::enc_unchecked(cfg), enc::enc_unchecked(&alt)]
        }
        c => vec![enc::enc_unchecked(c)],
    }
}

fn first_diff(a: &[u8], b: &[u8]) -> usize {
    a.iter().zip(b).position(|(x, y)| x != y).unwrap_or(a.len().min(b.len()))
}

pub fn check_c07(ctx: &mut Ctx, cfg: &Cfg, how: How) {
    let _case = crate::watchdog::case_cfg("c07", cfg, how);
    if !repr::violations(cfg).is_empty() {
        ctx.class("c07:skipped:unrepresentable");
        return;
    }
    if enc::size_of(cfg) > (1 << 20) {
        return;
    }
    if cfg_has_item_type0(cfg) {
        // no RFC image: on the wire type 0 ends the item list
        ctx.class("c07:skipped:sdes-item-type-0");
        return;
    }
    ctx.eval();
    let kind = cfg.kind_name();
    let bytes = match crate::drive::build_bytes(cfg, how) {
        Ok(b) => b,
        Err(WOut::Err(e)) => {
            ctx.class_dyn(format!("c07:{kind}:builder-rejected:{}", variant_name(&format!("{e:?}"))));
            return;
        }
        Err(other) => {
            ctx.violate(
                "serialise",
                kind,
                &other.class(),
                || cfg_case("c07", cfg, how),
                "an accepted configuration serialises",
                format!("write_into gives {}", other.render()),
            );
            return;
        }
    };
    ctx.class_dyn(format!("c07:{kind}:ok:{}", pk(cfg)));
    let models = model_images(cfg);
    let cb = canon(&bytes);
    let mut matches = models.iter().any(|m| *m == bytes || canon(m) == cb);
    if !matches {
        // A compound whose members have alternative images (RPSI with 8 ignored bits) has more combinations than
        // `model_images` enumerates: compare member by member instead - the written bytes tile into one packet per
        // leaf member, each of which must be one of that member's images.
        if let Cfg::Compound(_) = cfg {
            let mut leaves: Vec<&Cfg> = vec![];
            fn flat<'a>(c: &'a Cfg, out: &mut Vec<&'a Cfg>) {
                match c {
                    Cfg::Compound(m) => m.iter().for_each(|x| flat(x, out)),
                    o => out.push(o),
                }
            }
            flat(cfg, &mut leaves);
            if let Some(tiles) = dec::tiling(&bytes) {
                if tiles.len() == leaves.len() {
                    matches = tiles.iter().zip(&leaves).all(|(&(a, b), leaf)| {
                        let t = &bytes[a..b];
                        let ct = canon(t);
                        model_images(leaf).iter().any(|m| m[..] == *t || canon(m) == ct)
                    });
                    if matches {
                        ctx.class("c07:compound:matched-member-by-member");
                    }
                }
            }
        }
    }
    if !matches {
        let m = &models[0];
        let d = first_diff(&bytes, m);
        let region = match d {
            0..=3 => "header".to_string(),
            _ if d >= m.len().saturating_sub(cfg.padding() as usize) => "padding-trailer".to_string(),
            _ => "body".to_string(),
        };
        ctx.violate(
            "image",
            kind,
            &format!("{region}{}", if bytes.len() != m.len() { ";length" } else { "" }),
            || cfg_case("c07", cfg, how),
            format!("RFC image ({} bytes) {}", m.len(), hex(&m[..m.len().min(96)])),
            format!("written ({} bytes) {} — first difference at offset {d}", bytes.len(), hex(&bytes[..bytes.len().min(96)])),
        );
    }
    ctx.nontrivial(hash_of(cfg));
    ctx.sample_sparse(30_011, || J::obj().set("cfg", cfg.shape()).set("image", hex(&bytes[..bytes.len().min(48)])));
}

pub fn check_c07_odd(ctx: &mut Ctx, mc: u8, count: u8, padding: u8, body: usize) {
    ctx.eval();
    let n = 4 + body + padding as usize;
    let mut buf = vec![0u8; n];
    let Ok(Some((_, back))) = call(|| crate::custom::odd_header(mc, padding, count, &mut buf)) else { return };
    let want = enc::enc(&Cfg::Unknown { pt: crate::custom::ODD_PT, count, data: vec![0; body], padding }).unwrap_or_default();
    if buf != want || back != Ok(count) {
        ctx.violate(
            "image",
            "third-party(MAX_COUNT override)",
            "header",
            || J::obj().set("kind", "c07-odd").set("monitor", "c07-odd").set("max_count", mc).set("count", count).set("padding", padding).set("body", body),
            format!("{} and count {count} read back", hex(&want[..want.len().min(16)])),
            format!("{} and {back:?}", hex(&buf[..buf.len().min(16)])),
        );
    }
}

/// SLI entries are three bit-fields of one word (13 + 13 + 6). `add_lost_macroblock` takes wider integers
/// (`u16`, `u16`, `u8`) and the builder accepts every value, so a caller can hand a field a value it has no
/// room for. What the RFC image of *that field* is, nobody says (the crate truncates; saturating or rejecting
/// would be as defensible) – but each field "at its specified offset" still has to carry its own configured
/// value whenever that value fits: an oversized neighbour must not spill into it. Compared per field, the
/// oversized ones left alone.
pub fn check_c07_sli_isolation(ctx: &mut Ctx, entries: &[(u16, u16, u8)], padding: u8, how: How) {
    let cfg = Cfg::Fb { kind: FbKind::Payload, sender: 0x0102_0304, media: 0x0506_0708, fci: Fci::Sli(entries.to_vec()), padding };
    let _case = crate::watchdog::case_cfg("c07", &cfg, how);
    ctx.eval();
    let bytes = match crate::drive::build_bytes(&cfg, how) {
        Ok(b) => b,
        Err(WOut::Err(_)) => {
            ctx.class("c07:sli-oversized-field:builder-rejected");
            return;
        }
        Err(other) => {
            ctx.violate("serialise", "fb-sli", &other.class(), || cfg_case("c07", &cfg, how), "an accepted configuration serialises", format!("write_into gives {}", other.render()));
            return;
        }
    };
    ctx.class("c07:sli-oversized-field:ok");
    let want_len = 12 + 4 * entries.len() + padding as usize;
    let mut bad: Option<String> = None;
    if bytes.len() != want_len {
        bad = Some(format!("{} bytes written, the layout has {want_len}", bytes.len()));
    } else {
        for (i, e) in entries.iter().enumerate() {
            let w = u32::from_be_bytes([bytes[12 + 4 * i], bytes[13 + 4 * i], bytes[14 + 4 * i], bytes[15 + 4 * i]]);
            let got = ((w >> 19) as u16, ((w >> 6) & 0x1fff) as u16, (w & 0x3f) as u8);
            if e.0 <= 0x1fff && got.0 != e.0 {
                bad = Some(format!("entry {i}: First is {:#x}, configured {:#x} (entry {e:?}, word {w:#010x})", got.0, e.0));
            } else if e.1 <= 0x1fff && got.1 != e.1 {
                bad = Some(format!("entry {i}: Number is {:#x}, configured {:#x} (entry {e:?}, word {w:#010x})", got.1, e.1));
            } else if e.2 <= 0x3f && got.2 != e.2 {
                bad = Some(format!("entry {i}: PictureID is {:#x}, configured {:#x} (entry {e:?}, word {w:#010x})", got.2, e.2));
            }
            if bad.is_some() {
                break;
            }
        }
    }
    if let Some(t) = bad {
        ctx.violate(
            "image",
            "fb-sli",
            "body;field-next-to-an-oversized-one",
            || cfg_case("c07", &cfg, how),
            "every SLI field whose configured value fits carries that value at its RFC 4585 offset",
            format!("{t}; written {}", hex(&bytes[..bytes.len().min(64)])),
        );
    }
    ctx.nontrivial(hash_of(&cfg));
}

pub fn run_c07(ctx: &mut Ctx, shard: usize, nshards: usize) {
    // SLI fields next to a field that was given a value wider than its bit-field
    {
        let over16 = [0x2000u16, 0x3fff, 0x4000, 0x8000, 0xa555, 0xe000, 0xffff];
        let in16 = [0u16, 1, 0x0aaa, 0x1555, 0x1000, 0x1fff];
        let over8 = [0x40u8, 0x7f, 0x80, 0xc0, 0xff];
        let in8 = [0u8, 1, 0x2a, 0x15, 0x3f];
        let mut k = 0usize;
        let mut lists: Vec<Vec<(u16, u16, u8)>> = vec![];
        for &o in &over16 {
            for &a in &in16 {
                for &c in &in8 {
                    lists.push(vec![(o, a, c)]);
                    lists.push(vec![(a, o, c)]);
                    lists.push(vec![(1, 2, 3), (a, o, c), (0x1fff, 0x1fff, 0x3f)]);
                    lists.push(vec![(o, o, c), (a, a, c)]);
                }
            }
        }
        for &o in &over8 {
            for &a in &in16 {
                lists.push(vec![(a, 0x1fff - a, o)]);
                lists.push(vec![(0, 0, o), (a, a, 0)]);
                lists.push(vec![(0xffff, a, o)]);
                lists.push(vec![(a, 0xffff, o)]);
            }
        }
        for l in &lists {
            k += 1;
            if k % nshards == shard {
                check_c07_sli_isolation(ctx, l, if k % 3 == 0 { 4 } else { 0 }, hows(k / nshards));
            }
        }
    }
    // writers of third-party packet types that override the defaulted `MAX_COUNT` (custom::Odd): the image is the
    // model's image of an unknown packet with that count, for every legal count of the type
    if shard == 0 {
        for mc in [4u8, 10, 16, 30] {
            for count in 0..=mc {
                for (padding, body) in [(0u8, 0usize), (4, 8), (252, 0)] {
                    check_c07_odd(ctx, mc, count, padding, body);
                }
            }
        }
        ctx.class("c07:third-party-max-count-override");
    }
    workload(ctx, shard, nshards, 0xc07, false, 40_000, 1_200_000, &mut |ctx, c, h| check_c07(ctx, c, h));
}
pub fn floor_c07(ctx: &Ctx) -> Vec<(String, bool)> {
    floor_kinds(ctx, "c07", false)
}

// ================================================================== C16

pub fn check_c16(ctx: &mut Ctx, cfg: &Cfg, how: How) {
    let _case = crate::watchdog::case_cfg("c16", cfg, how);
    ctx.eval();
    let kind = cfg.kind_name();
    let viol = repr::violations(cfg);
    let r = with_writer(cfg, how, |w| calc(w));
    let rules = || viol.iter().map(|r| r.name()).collect::<Vec<_>>().join("+");
    for v in &viol {
        ctx.class_dyn(format!("c16:rule-violated:{}{}", v.name(), if viol.len() == 1 { ":alone" } else { ":combined" }));
    }
    match &r {
        WOut::WrongSize { .. } => unreachable!("calc never reports WrongSize"),
        WOut::Panic(p) => ctx.violate(
            "calculate_size-panics",
            kind,
            &crate::drive::site_file(&p.site),
            || cfg_case("c16", cfg, how),
            "calculate_size returns",
            r.render(),
        ),
        WOut::Ok(n) => {
            if viol.is_empty() {
                ctx.class_dyn(format!("c16:{kind}:ok:{}", pk(cfg)));
            } else {
                ctx.violate(
                    "accepts-unrepresentable",
                    kind,
                    &format!("rule={}", viol[0].name()),
                    || cfg_case("c16", cfg, how),
                    format!("calculate_size() fails: the configuration violates {}", rules()),
                    format!("calculate_size() == Ok({n}) for {}", cfg.shape()),
                );
            }
        }
        WOut::Err(e) => {
            let ev = variant_name(&format!("{e:?}")).to_string();
            if viol.is_empty() {
                ctx.violate(
                    "rejects-representable",
                    kind,
                    &format!("err={ev}"),
                    || cfg_case("c16", cfg, how),
                    format!("calculate_size() succeeds: {} violates no wire-format rule", cfg.shape()),
                    format!("calculate_size() == Err({e:?})"),
                );
            } else if !viol.iter().any(|v| v.named_by(e)) {
                ctx.violate(
                    "error-names-violated-rule",
                    kind,
                    &format!("err={ev};rules={}", rules()),
                    || cfg_case("c16", cfg, how),
                    format!("an error naming one of the violated rules ({:?}) with the offending value", viol),
                    format!("Err({e:?})"),
                );
            } else {
                ctx.class_dyn(format!("c16:{kind}:err:{ev}"));
            }
        }
    }
    ctx.nontrivial(hash_of(cfg));
    ctx.sample_sparse(30_011, || J::obj().set("cfg", cfg.shape()).set("violated_rules", rules()).set("result", r.render()));
}

fn limit_sweep(ctx: &mut Ctx, shard: usize, nshards: usize) {
    let idx = std::cell::Cell::new(0usize);
    let go = |ctx: &mut Ctx, c: Cfg| {
        idx.set(idx.get() + 1);
        if idx.get() % nshards == shard {
            check_c16(ctx, &c, hows(idx.get() / nshards));
        }
    };
    let rb = |cum: u32| Rb { ssrc: 1, fraction: 2, cumulative: cum, ext_seq: 3, jitter: 4, lsr: 5, dlsr: 6 };
    let s = |n: usize| -> String { "x".repeat(n) };
    for n in [30usize, 31, 32, 33] {
        go(ctx, Cfg::Sr { ssrc: 1, ntp: 0, rtp: 0, pc: 0, oc: 0, blocks: vec![rb(1); n], padding: 0 });
        go(ctx, Cfg::Rr { ssrc: 1, blocks: vec![rb(1); n], padding: 4 });
        go(ctx, Cfg::Bye { sources: vec![7; n], reason: String::new(), padding: 0 });
        go(ctx, Cfg::Bye { sources: vec![7; n], reason: s(3), padding: 8 });
        go(ctx, Cfg::Sdes { chunks: vec![Chunk { ssrc: 1, items: vec![] }; n], padding: 0 });
    }
    for cum in [0xff_fffeu32, 0xff_ffff, 0x100_0000, 0x100_0001, 0xffff_ffff, 0x8000_0000] {
        go(ctx, Cfg::Rr { ssrc: 1, blocks: vec![rb(cum)], padding: 0 });
        go(ctx, Cfg::Sr { ssrc: 1, ntp: 0, rtp: 0, pc: 0, oc: 0, blocks: vec![rb(0), rb(cum)], padding: 0 });
    }
    for l in [254usize, 255, 256, 257, 300, 1000] {
        go(ctx, Cfg::Bye { sources: vec![1], reason: s(l), padding: 0 });
        go(ctx, Cfg::Sdes { chunks: vec![Chunk { ssrc: 1, items: vec![Item { type_: 1, prefix: vec![], value: s(l) }] }], padding: 0 });
        go(ctx, Cfg::Sdes { chunks: vec![Chunk { ssrc: 1, items: vec![Item { type_: 1, prefix: vec![1; 300], value: s(l) }] }], padding: 0 });
    }
    // every PRIV split around the limit
    for total in [253usize, 254, 255, 256] {
        for pl in 0..=total {
            if pl % 7 != 0 && pl > 3 && pl + 3 < total {
                continue;
            }
            go(
                ctx,
                Cfg::Sdes {
                    chunks: vec![Chunk { ssrc: 1, items: vec![Item { type_: 8, prefix: vec![0x61; pl], value: s(total - pl) }] }],
                    padding: 0,
                },
            );
        }
    }
    for name in ["", "a", "abcd", "abcde", "abcdef", "é", "éa", "日", "日a", "ab\u{80}", "\0\0\0\0", "\0\0\0\0\0"] {
        for st in [0u8, 31, 32, 33, 255] {
            for dl in 0..=9usize {
                go(ctx, Cfg::App { ssrc: 1, subtype: st, name: name.to_string(), data: vec![0; dl], padding: 0 });
            }
        }
    }
    for count in [0u8, 30, 31, 32, 33, 128, 255] {
        for dl in 0..=9usize {
            for p in [0u8, 4, 5] {
                go(ctx, Cfg::Unknown { pt: 199, count, data: vec![1; dl], padding: p });
            }
        }
    }
    for pt in [0u8, 126, 127, 128, 129, 255] {
        for (len, ign) in [(0usize, 0u8), (0, 1), (0, 8), (0, 9), (1, 0), (1, 7), (1, 8), (1, 9), (1, 255), (5, 8), (5, 9)] {
            go(ctx, Cfg::Fb { kind: FbKind::Payload, sender: 1, media: 2, fci: Fci::Rpsi { pt, bits: vec![0xff; len], overrun: ign }, padding: 0 });
        }
    }
    // magnitudes that alias a legal value in a narrower integer (count as u8 / u16, length as u8 / u16, 24-bit masks):
    // a limit check done after such a conversion passes for them although it is crossed by far
    for n in [255usize, 256, 257, 256 + 31, 288, 512, 512 + 7, 65_536, 65_537, 65_536 + 31, 65_568] {
        // (the probing route sizes the builder after every call: quadratic, so the huge lists take the plain route)
        let big = n > 600;
        let goh = |ctx: &mut Ctx, c: Cfg| {
            if big {
                idx.set(idx.get() + 1);
                if idx.get() % nshards == shard {
                    check_c16(ctx, &c, How { owned: idx.get() / nshards % 2 == 1, ..How::default() });
                }
            } else {
                go(ctx, c)
            }
        };
        goh(ctx, Cfg::Sr { ssrc: 1, ntp: 0, rtp: 0, pc: 0, oc: 0, blocks: vec![rb(1); n], padding: 0 });
        goh(ctx, Cfg::Rr { ssrc: 1, blocks: vec![rb(1); n], padding: 0 });
        goh(ctx, Cfg::Bye { sources: (0..n as u32).collect(), reason: String::new(), padding: 0 });
        goh(ctx, Cfg::Sdes { chunks: (0..n as u32).map(|i| Chunk { ssrc: i, items: vec![] }).collect(), padding: 0 });
        goh(ctx, Cfg::Bye { sources: vec![1], reason: s(n), padding: 0 });
        goh(ctx, Cfg::Sdes { chunks: vec![Chunk { ssrc: 1, items: vec![Item { type_: 1, prefix: vec![], value: s(n) }] }], padding: 0 });
        goh(ctx, Cfg::Sdes { chunks: vec![Chunk { ssrc: 1, items: vec![Item { type_: 8, prefix: vec![0x62; n], value: s(0) }] }], padding: 0 });
        goh(ctx, Cfg::Sdes { chunks: vec![Chunk { ssrc: 1, items: vec![Item { type_: 8, prefix: vec![0x62; n], value: s(3) }] }], padding: 0 });
        goh(ctx, Cfg::Sdes { chunks: vec![Chunk { ssrc: 1, items: vec![Item { type_: 8, prefix: vec![0x62; 2], value: s(n) }] }], padding: 0 });
        // an APP name whose length is 0..=4 modulo 256 / 65536
        for k in [0usize, 1, 4] {
            goh(ctx, Cfg::App { ssrc: 1, subtype: 0, name: s(n + k), data: vec![], padding: 0 });
        }
    }
    for cum in [0x0100_0005u32, 0x0200_0000, 0x7fff_ffff, 0xff00_0000, 0xff80_0000, 0xffff_fffe] {
        go(ctx, Cfg::Rr { ssrc: 1, blocks: vec![rb(cum)], padding: 0 });
    }
    for v in 32..=255u8 {
        go(ctx, Cfg::App { ssrc: 1, subtype: v, name: "subt".into(), data: vec![], padding: 0 });
        go(ctx, Cfg::Unknown { pt: 200 + (v % 50), count: v, data: vec![], padding: 0 });
        if v >= 128 {
            go(ctx, Cfg::Fb { kind: FbKind::Payload, sender: 1, media: 2, fci: Fci::Rpsi { pt: v, bits: vec![1, 2], overrun: 0 }, padding: 0 });
        }
        if v > 8 {
            go(ctx, Cfg::Fb { kind: FbKind::Payload, sender: 1, media: 2, fci: Fci::Rpsi { pt: 5, bits: vec![1, 2, 3], overrun: v }, padding: 0 });
        }
    }
    // padding on a non-last compound member, at every position
    let m = |p: u8| Cfg::Rr { ssrc: 1, blocks: vec![], padding: p };
    // ... of a long compound: the padded member at an index that is 0 or the last index modulo 256
    for (n, pos) in [(257usize, 0usize), (257, 255), (257, 256), (300, 43), (513, 256), (256, 255), (256, 0)] {
        let mut v: Vec<Cfg> = (0..n).map(|_| m(0)).collect();
        v[pos] = m(8);
        idx.set(idx.get() + 1);
        if idx.get() % nshards == shard {
            check_c16(ctx, &Cfg::Compound(v), How::default());
        }
    }
    for n in 1..=4usize {
        for pos in 0..n {
            for p in [4u8, 252, 3] {
                let mut v: Vec<Cfg> = (0..n).map(|_| m(0)).collect();
                v[pos] = m(p);
                go(ctx, Cfg::Compound(v.clone()));
                // nested: the padded member sits last inside a non-last nested compound
                go(ctx, Cfg::Compound(vec![Cfg::Compound(v.clone()), m(0)]));
                go(ctx, Cfg::Compound(vec![m(0), Cfg::Compound(v)]));
            }
        }
    }
}

/// Configurations at the 65536-word limit: 262 140 / 262 144 / 262 148 bytes.
fn size_limit_sweep(ctx: &mut Ctx, shard: usize, nshards: usize) {
    let mut k = 0usize;
    let mut go = |ctx: &mut Ctx, c: Cfg| {
        k += 1;
        if k % nshards == shard {
            check_c16(ctx, &c, How::default());
        }
    };
    for total in [262_140usize, 262_144, 262_148] {
        go(ctx, Cfg::App { ssrc: 1, subtype: 0, name: "big!".into(), data: vec![0x5a; total - 12], padding: 0 });
        go(ctx, Cfg::App { ssrc: 1, subtype: 0, name: "big!".into(), data: vec![0x5a; total - 12 - 252], padding: 252 });
        go(ctx, Cfg::Unknown { pt: 199, count: 0, data: vec![0x5a; total - 4], padding: 0 });
        go(ctx, Cfg::Fb { kind: FbKind::Payload, sender: 1, media: 2, fci: Fci::Rpsi { pt: 1, bits: vec![0xff; total - 12 - 2], overrun: 0 }, padding: 0 });
        go(
            ctx,
            Cfg::Fb {
                kind: FbKind::Payload,
                sender: 1,
                media: 2,
                fci: Fci::Sli((0..(total - 12) / 4).map(|i| ((i & 0x1fff) as u16, 1, 0)).collect()),
                padding: 0,
            },
        );
        // SDES: 31 chunks cannot reach the limit with one item each, but items are unbounded
        let per_item = 2 + 255;
        let mut items = vec![];
        let mut size = 4 + 4 + 1; // header + ssrc + terminator
        while size + per_item + 3 < total {
            items.push(Item { type_: 1, prefix: vec![], value: "v".repeat(255) });
            size += per_item;
        }
        // tune the last item so that pad4(...) hits `total` exactly
        let rest = total - size; // bytes still to fill, including item header
        if rest >= 2 {
            items.push(Item { type_: 2, prefix: vec![], value: "w".repeat((rest - 2).min(255)) });
        }
        go(ctx, Cfg::Sdes { chunks: vec![Chunk { ssrc: 9, items }], padding: 0 });
    }
    // FIR: 8 bytes per entry: 32766 entries = 262 140 bytes (fits), 32767 = 262 148 (does not)
    for n in [32_765usize, 32_766, 32_767] {
        go(ctx, Cfg::Fb { kind: FbKind::Payload, sender: 1, media: 2, fci: Fci::Fir((0..n as u32).map(|i| (i, i as u8)).collect()), padding: 0 });
    }
}

pub fn run_c16(ctx: &mut Ctx, shard: usize, nshards: usize) {
    limit_sweep(ctx, shard, nshards);
    if ctx.scale >= 0.5 {
        size_limit_sweep(ctx, shard, nshards);
    }
    workload(ctx, shard, nshards, 0xc16, true, 40_000, 1_500_000, &mut |ctx, c, h| check_c16(ctx, c, h));
}

pub fn floor_c16(ctx: &Ctx) -> Vec<(String, bool)> {
    let all = ctx.all_classes();
    let mut f = vec![];
    for r in [
        "padding%4",
        "app-subtype>31",
        "unknown-count>31",
        "report-blocks>31",
        "sources>31",
        "chunks>31",
        "cumulative-lost>24bit",
        "app-name",
        "payload%4",
        "reason>255",
        "sdes-value>255",
        "priv-prefix+value>254",
        "rpsi-pt>127",
        "rpsi-ignored-bits",
        "fci-wrong-feedback-kind",
        "non-last-padding",
        "total-size>65536w",
    ] {
        let c = format!("c16:rule-violated:{r}:alone");
        f.push((c.clone(), all.contains_key(&c)));
    }
    for k in cfgs::VALID_KINDS {
        let c = format!("c16:{k}:ok:");
        f.push((c.clone(), all.keys().any(|x| x.starts_with(&c)) || !ctx.violation_counts.is_empty()));
    }
    f
}

// ================================================================== C17

static UNINIT: AtomicBool = AtomicBool::new(false);
pub fn cfg_has_item_type0(c: &Cfg) -> bool {
    match c {
        Cfg::Sdes { chunks, .. } => chunks.iter().any(|c| c.items.iter().any(|i| i.type_ == 0)),
        Cfg::Compound(m) => m.iter().any(cfg_has_item_type0),
        _ => false,
    }
}
fn cfg_has_fir(c: &Cfg) -> bool {
    match c {
        Cfg::Fb { fci: Fci::Fir(l), .. } => l.len() > 1,
        Cfg::Compound(m) => m.iter().any(cfg_has_fir),
        _ => false,
    }
}

pub fn set_uninit(v: bool) {
    UNINIT.store(v, Ordering::SeqCst);
}

fn prefill(kind: usize, buf: &mut [u8]) {
    for (i, b) in buf.iter_mut().enumerate() {
        *b = match kind {
            0 => 0x00,
            1 => 0xff,
            _ => (i as u32).wrapping_mul(2_654_435_761).rotate_right(11) as u8 ^ 0x5c,
        };
    }
}

/// a heap block that is *not* initialised (malloc'd, never written)
struct RawBuf {
    ptr: *mut u8,
    len: usize,
}
impl RawBuf {
    fn new(len: usize) -> RawBuf {
        let layout = std::alloc::Layout::from_size_align(len.max(1), 1).unwrap();
        let ptr = unsafe { std::alloc::alloc(layout) };
        assert!(!ptr.is_null());
        RawBuf { ptr, len }
    }
    #[allow(clippy::mut_from_ref)]
    fn slice(&mut self) -> &mut [u8] {
        unsafe { std::slice::from_raw_parts_mut(self.ptr, self.len) }
    }
}
impl Drop for RawBuf {
    fn drop(&mut self) {
        let layout = std::alloc::Layout::from_size_align(self.len.max(1), 1).unwrap();
        unsafe { std::alloc::dealloc(self.ptr, layout) };
    }
}

#[inline(never)]
fn consume_defined(bytes: &[u8]) -> u64 {
    // every byte takes part in a branch: memcheck reports "conditional jump depends on
    // uninitialised value", Miri reports the read of uninitialised memory itself
    let mut odd = 0u64;
    for &b in bytes {
        if b & 1 == 1 {
            odd += 1;
        }
    }
    std::hint::black_box(odd)
}

pub fn check_c17(ctx: &mut Ctx, cfg: &Cfg, how: How) {
    let _case = crate::watchdog::case_cfg("c17", cfg, how);
    if enc::size_of(cfg) > (1 << 20) {
        return;
    }
    ctx.eval();
    let kind = cfg.kind_name();
    with_writer(cfg, how, |w| {
        let r = calc(w);
        let n = match &r {
            WOut::Ok(n) => Some(*n),
            _ => None,
        };
        if UNINIT.load(Ordering::Relaxed) {
            // Oracle B: definedness, decided by Miri / memcheck underneath
            if let Some(n) = n {
                for slack in [0usize, 5] {
                    eprintln!("CASE {}", cfg_case("c17", cfg, how).set("buffer_len", n + slack).set("prefill", "uninitialised").to_string());
                    let mut raw = RawBuf::new(n + slack);
                    let got = write(w, raw.slice());
                    if let WOut::Ok(m) = got {
                        let m = m.min(n + slack);
                        consume_defined(&raw.slice()[..m]);
                        ctx.class_dyn(format!("c17:uninit:{kind}:{}", pk(cfg)));
                    }
                }
                ctx.nontrivial(hash_of(cfg));
            }
            return;
        }
        // Oracle A: differential over prefills
        let lens: Vec<usize> = match n {
            Some(n) => {
                let mut v = vec![n, n + 1, n + 7, n + 64];
                if n > 0 {
                    v.push(n - 1);
                    v.push(n / 2);
                    v.push(0);
                }
                v
            }
            None => vec![0, 13, 256],
        };
        for l in lens {
            let mut bufs: Vec<Vec<u8>> = vec![];
            let mut outs: Vec<WOut> = vec![];
            for k in 0..3 {
                let mut b = vec![0u8; l];
                prefill(k, &mut b);
                let o = write(w, &mut b);
                bufs.push(b);
                outs.push(o);
            }
            let case = || cfg_case("c17", cfg, how).set("buffer_len", l);
            let class = if outs[0] == WOut::Ok(0) || matches!(outs[0], WOut::Ok(_)) { "ok" } else if n.is_some() { "too-small" } else { "invalid" };
            ctx.class_dyn(format!("c17:{kind}:{class}:{}:{}", pk(cfg), if n.map(|n| l > n).unwrap_or(false) { "slack" } else { "exact-or-less" }));
            if outs.iter().all(|o| matches!(o, WOut::Panic(_))) && outs[0] == outs[1] && outs[0] == outs[2] {
                // the write unwinds whatever the buffer holds: "never panics" is C06's clause, and nothing
                // was reported as written, so this property has nothing to judge
                ctx.class_dyn(format!("c17:other-property:write-panics(C06):{kind}"));
                return;
            }
            if outs[0] != outs[1] || outs[0] != outs[2] {
                ctx.violate("result-depends-on-prefill", kind, "result", case, "same result for every prefill", format!("{:?}", outs.iter().map(|o| o.render()).collect::<Vec<_>>()));
                return;
            }
            match &outs[0] {
                WOut::Ok(m) => {
                    let m = (*m).min(l);
                    if bufs[0][..m] != bufs[1][..m] || bufs[0][..m] != bufs[2][..m] {
                        let d = (0..m).find(|&i| bufs[0][i] != bufs[1][i] || bufs[0][i] != bufs[2][i]).unwrap_or(0);
                        ctx.violate(
                            "claimed-bytes-defined",
                            kind,
                            if d + (cfg.padding() as usize) >= m && cfg.padding() > 0 { "in-padding-trailer" } else { "in-body" },
                            case,
                            format!("the {m} bytes reported as written do not depend on the previous buffer contents"),
                            format!(
                                "byte {d} of {m} keeps the prefill: 0x00-prefill {} / 0xff-prefill {}",
                                hex(&bufs[0][..m.min(64)]),
                                hex(&bufs[1][..m.min(64)])
                            ),
                        );
                        return;
                    }
                    for k in 0..3 {
                        let mut exp = vec![0u8; l];
                        prefill(k, &mut exp);
                        if bufs[k][m..] != exp[m..] {
                            let d = (m..l).find(|&i| bufs[k][i] != exp[i]).unwrap_or(m);
                            ctx.violate(
                                "bytes-beyond-n-untouched",
                                kind,
                                "beyond-n",
                                case,
                                format!("bytes at and after {m} keep their previous contents"),
                                format!("byte {d} changed from {:#04x} to {:#04x}", exp[d], bufs[k][d]),
                            );
                            return;
                        }
                    }
                }
                WOut::Err(e) => {
                    for k in 0..3 {
                        let mut exp = vec![0u8; l];
                        prefill(k, &mut exp);
                        if bufs[k] != exp {
                            let d = (0..l).find(|&i| bufs[k][i] != exp[i]).unwrap_or(0);
                            ctx.violate(
                                "failed-write-leaves-buffer",
                                kind,
                                variant_name(&format!("{e:?}")),
                                case,
                                format!("a write failing with {e:?} leaves the whole buffer unchanged"),
                                format!("byte {d} changed from {:#04x} to {:#04x}", exp[d], bufs[k][d]),
                            );
                            return;
                        }
                    }
                }
                WOut::Panic(_) | WOut::WrongSize { .. } => unreachable!(),
            }
            // the same write through the *concrete* builder type with method syntax (what an application that
            // holds the builder itself calls; an inherent method would shadow the trait's): same result, same
            // buffer as the trait-object path just judged. FIR entry order is per builder instance: skipped.
            if !UNINIT.load(std::sync::atomic::Ordering::Relaxed) && !cfg_has_fir(cfg) {
                let k = l % 3;
                let mut b = vec![0u8; l];
                prefill(k, &mut b);
                if let Some((_, wrote, after)) = crate::drive::concrete_outcome(cfg, how, b) {
                    if !matches!(wrote, WOut::Panic(_)) && (wrote != outs[k] || after != bufs[k]) {
                        let d = after.iter().zip(&bufs[k]).position(|(x, y)| x != y);
                        ctx.violate(
                            "concrete-type-path",
                            kind,
                            if wrote != outs[k] { "result" } else if matches!(wrote, WOut::Ok(_)) { "bytes" } else { "failed-write-leaves-buffer" },
                            case,
                            format!("as through the trait object: {} and the same buffer", outs[k].render()),
                            format!("{} ; first differing byte {d:?}", wrote.render()),
                        );
                        return;
                    }
                    ctx.class("c17:concrete-type-path-compared");
                }
            }
        }
        // `write_into_unchecked` is public API too (it is what `write_into` and the compound writer delegate to, and
        // what an application that has sized its buffer itself calls): on an accepted configuration and a buffer of
        // at least the calculated size, the bytes it reports as written are the same for every previous content.
        // (The length field it writes follows the buffer's length, as documented; that is the same for every prefill
        // and no business of this property.)
        if let Some(n) = n {
            for l in [n, n + 4, n + 36] {
                let mut bufs: Vec<Vec<u8>> = vec![];
                let mut outs: Vec<Result<usize, crate::drive::Panicked>> = vec![];
                for k in 0..3 {
                    let mut b = vec![0u8; l];
                    prefill(k, &mut b);
                    let o = call(|| rtcp_types::prelude::RtcpPacketWriter::write_into_unchecked(w, &mut b));
                    bufs.push(b);
                    outs.push(o);
                }
                let case = || cfg_case("c17", cfg, how).set("buffer_len", l).set("call", "write_into_unchecked");
                if outs.iter().any(|o| o.is_err()) {
                    // an unwinding unchecked write on a large enough buffer: "never panics" is C06's clause
                    ctx.class_dyn(format!("c17:other-property:unchecked-write-panics(C06):{kind}"));
                    break;
                }
                let ms: Vec<usize> = outs.iter().map(|o| *o.as_ref().ok().unwrap()).collect();
                ctx.class_dyn(format!("c17:unchecked-direct:{kind}:{}", if l > n { "slack" } else { "exact" }));
                if ms[0] != ms[1] || ms[0] != ms[2] {
                    ctx.violate("result-depends-on-prefill", kind, "unchecked-result", case, "same result for every prefill", format!("{ms:?}"));
                    break;
                }
                if ms[0] > l {
                    ctx.violate(
                        "claimed-bytes-defined",
                        kind,
                        "unchecked-claims-more-than-the-buffer",
                        case,
                        format!("at most {l} bytes (the buffer) reported as written"),
                        format!("write_into_unchecked returned {}", ms[0]),
                    );
                    break;
                }
                let m = ms[0];
                if bufs[0][..m] != bufs[1][..m] || bufs[0][..m] != bufs[2][..m] {
                    let d = (0..m).find(|&i| bufs[0][i] != bufs[1][i] || bufs[0][i] != bufs[2][i]).unwrap_or(0);
                    ctx.violate(
                        "claimed-bytes-defined",
                        kind,
                        if l > n { "unchecked-into-a-longer-buffer" } else { "unchecked-into-an-exact-buffer" },
                        case,
                        format!("the {m} bytes write_into_unchecked reports as written (calculate_size {n}, buffer {l}) do not depend on the previous buffer contents"),
                        format!("byte {d} of {m} keeps the prefill: {} / {}", hex(&bufs[0][..m.min(64)]), hex(&bufs[1][..m.min(64)])),
                    );
                    break;
                }
                // No "bytes behind them untouched" clause here: the unchecked writer is handed the buffer as *the packet*
                // ("uses the length of the buffer for the length field"), so a writer that clears its whole slice first
                // is within its contract (benign change refactors-utils-bye-writer does exactly that). That clause is
                // owed by `write_into`, which is what hands the writer an exact slice - judged above.
            }
        }
        ctx.nontrivial(hash_of(cfg));
        ctx.sample_sparse(30_011, || J::obj().set("cfg", cfg.shape()).set("calculate_size", r.render()));
    });
}

/// The three clauses of C17 for a writer that is only reachable as a closure over a buffer: the public `write_into`
/// of an SDES chunk or item builder, or an FCI builder written on its own (`FciBuilder: RtcpPacketWriter`). These are
/// "writers" and their configurations "accepted configurations" like any packet builder's.
fn c17_sub_writer(ctx: &mut Ctx, cfg: &Cfg, how: How, which: &str, kind: &str, wr: &dyn Fn(&mut [u8]) -> Result<usize, RtcpWriteError>) {
    let n = match call(|| wr(&mut [])) {
        Ok(Ok(0)) => Some(0),
        Ok(Err(RtcpWriteError::OutputTooSmall(n))) => Some(n),
        Ok(Err(_)) => None,
        // an unwinding or over-claiming sub-builder on an empty buffer is C06's finding
        _ => return,
    };
    if n.map(|n| n > 8192).unwrap_or(false) {
        return;
    }
    let lens: Vec<usize> = match n {
        Some(n) => {
            let mut v = vec![n, n + 1, n + 7, n + 64];
            if n > 0 {
                v.push(n - 1);
                v.push(n / 2);
            }
            v
        }
        None => vec![0, 13, 256],
    };
    for l in lens {
        let mut bufs: Vec<Vec<u8>> = vec![];
        let mut outs: Vec<Result<Result<usize, RtcpWriteError>, crate::drive::Panicked>> = vec![];
        for k in 0..3 {
            let mut b = vec![0u8; l];
            prefill(k, &mut b);
            let o = call(|| wr(&mut b));
            bufs.push(b);
            outs.push(o);
        }
        let case = || cfg_case("c17", cfg, how).set("sub_builder", which).set("buffer_len", l);
        if outs.iter().any(|o| o.is_err()) {
            ctx.class_dyn(format!("c17:other-property:sub-builder-write-panics(C06):{kind}"));
            return;
        }
        let rs: Vec<&Result<usize, RtcpWriteError>> = outs.iter().map(|o| o.as_ref().ok().unwrap()).collect();
        ctx.class_dyn(format!("c17:{kind}:{}:{}", if rs[0].is_ok() { "ok" } else if n.is_some() { "too-small" } else { "invalid" }, if n.map(|n| l > n).unwrap_or(false) { "slack" } else { "exact-or-less" }));
        if rs[0] != rs[1] || rs[0] != rs[2] {
            ctx.violate("result-depends-on-prefill", kind, "sub-builder-result", case, "same result for every prefill", format!("{rs:?}"));
            return;
        }
        match rs[0] {
            Ok(m) => {
                let m = (*m).min(l);
                if bufs[0][..m] != bufs[1][..m] || bufs[0][..m] != bufs[2][..m] {
                    let d = (0..m).find(|&i| bufs[0][i] != bufs[1][i] || bufs[0][i] != bufs[2][i]).unwrap_or(0);
                    ctx.violate(
                        "claimed-bytes-defined",
                        kind,
                        "sub-builder",
                        case,
                        format!("the {m} bytes reported as written do not depend on the previous buffer contents"),
                        format!("byte {d} of {m} keeps the prefill: {} / {}", hex(&bufs[0][..m.min(64)]), hex(&bufs[1][..m.min(64)])),
                    );
                    return;
                }
                for k in 0..3 {
                    let mut exp = vec![0u8; l];
                    prefill(k, &mut exp);
                    if bufs[k][m..] != exp[m..] {
                        let d = (m..l).find(|&i| bufs[k][i] != exp[i]).unwrap_or(m);
                        ctx.violate("bytes-beyond-n-untouched", kind, "sub-builder-beyond-n", case, format!("bytes at and after {m} keep their previous contents"), format!("byte {d} changed from {:#04x} to {:#04x}", exp[d], bufs[k][d]));
                        return;
                    }
                }
            }
            Err(e) => {
                for k in 0..3 {
                    let mut exp = vec![0u8; l];
                    prefill(k, &mut exp);
                    if bufs[k] != exp {
                        let d = (0..l).find(|&i| bufs[k][i] != exp[i]).unwrap_or(0);
                        ctx.violate(
                            "failed-write-leaves-buffer",
                            kind,
                            &format!("sub-builder:{}", variant_name(&format!("{e:?}"))),
                            case,
                            format!("a write failing with {e:?} leaves the whole buffer unchanged"),
                            format!("byte {d} changed from {:#04x} to {:#04x}", exp[d], bufs[k][d]),
                        );
                        return;
                    }
                }
            }
        }
    }
}

/// C17 for the sub-builders of a configuration (native differential oracle only).
pub fn check_c17_subs(ctx: &mut Ctx, cfg: &Cfg, how: How) {
    if UNINIT.load(Ordering::Relaxed) {
        return;
    }
    let _case = crate::watchdog::case_cfg("c17", cfg, how);
    if let Cfg::Fb { fci, .. } = cfg {
        if enc::size_of(cfg) <= 8192 {
            if let Ok(fb) = call(|| crate::drive::mk_fci(fci)) {
                let alone = FciAlone(fb.as_dyn());
                let w = crate::drive::DynW(&alone);
                c17_sub_writer(ctx, cfg, how, "fci-builder-alone", &format!("{}(fci-builder-alone)", cfg.kind_name()), &|buf| rtcp_types::prelude::RtcpPacketWriterExt::write_into(&w, buf));
            }
        }
    }
    if let Cfg::Sdes { chunks, .. } = cfg {
        for (ci, c) in chunks.iter().enumerate().take(3) {
            c17_sub_writer(ctx, cfg, how, &format!("chunk{ci}"), "sdes-chunk", &|buf| crate::drive::mk_chunk(c, how.owned).write_into(buf));
            for (ii, i) in c.items.iter().enumerate().take(3) {
                c17_sub_writer(ctx, cfg, how, &format!("chunk{ci}.item{ii}"), "sdes-item", &|buf| {
                    let b = if how.owned { crate::drive::mk_item(i).into_owned() } else { crate::drive::mk_item(i) };
                    b.write_into(buf)
                });
            }
        }
    }
}

pub fn run_c17(ctx: &mut Ctx, shard: usize, nshards: usize) {
    // configurations above 65536 words, as long as size calculation accepts them (open finding D13, C16's): they are
    // "accepted configurations", so the bytes reported as written must not depend on what the buffer held before
    if ctx.scale >= 0.5 && !UNINIT.load(Ordering::Relaxed) {
        let mut v = oversize_cfgs();
        v.extend(oversize_padded_cfgs());
        for (i, c) in v.iter().enumerate() {
            if i % nshards == shard {
                check_c17(ctx, c, hows(i));
                ctx.class("c17:oversize(>65536 words)");
            }
        }
    }
    workload(ctx, shard, nshards, 0xc17, false, 20_000, 600_000, &mut |ctx, c, h| {
        check_c17(ctx, c, h);
        check_c17_subs(ctx, c, h);
    });
}
pub fn floor_c17(ctx: &Ctx) -> Vec<(String, bool)> {
    let all = ctx.all_classes();
    let mut f = vec![];
    if UNINIT.load(Ordering::Relaxed) {
        f.push(("c17:uninit:*".to_string(), all.keys().any(|k| k.starts_with("c17:uninit:"))));
        return f;
    }
    for k in cfgs::VALID_KINDS {
        let c = format!("c17:{k}:ok:padded:slack");
        f.push((c.clone(), all.contains_key(&c) || !ctx.violation_counts.is_empty()));
    }
    for c in ["too-small", "invalid"] {
        f.push((format!("c17:*:{c}"), all.keys().any(|k| k.contains(&format!(":{c}:")))));
    }
    f
}
