//! Glue between libFuzzer (or a recorded fuzzer artifact) and the monitors.

use crate::cfg::Cfg;
use crate::ctx::{Ctx, Distinct};
use crate::drive::How;
use crate::gen::cfgs::{self, Mix};
use crate::model::enc;
use crate::mon::{compose, fci_sdes, parsers, roundtrip, writers};
use crate::source::Src;
use std::sync::OnceLock;

fn distinct() -> &'static Distinct {
    static D: OnceLock<Distinct> = OnceLock::new();
    D.get_or_init(|| Distinct::new(20))
}

fn prop() -> &'static str {
    static P: OnceLock<&'static str> = OnceLock::new();
    P.get_or_init(|| Box::leak(std::env::var("RTCPMON_PROP").unwrap_or_else(|_| "C01".into()).into_boxed_str()))
}

fn seed() -> u64 {
    static S: OnceLock<u64> = OnceLock::new();
    *S.get_or_init(|| std::env::var("RTCPMON_SEED").ok().and_then(|s| s.parse().ok()).unwrap_or(1))
}

/// Decode a configuration (and how to build it) from fuzzer bytes.
pub fn cfg_from(data: &[u8], prop: &str) -> (Cfg, How) {
    let mut s = Src::bytes(data);
    let h = s.u8();
    let how = How { owned: h & 1 == 1, wrap: h & 2 == 2, probe: h & 16 == 16, reconf: h & 32 == 32 };
    let mix = if h & 4 == 4 { Mix::Limit } else { Mix::Valid };
    let cfg = match prop {
        "C02" => {
            if h & 8 == 8 {
                cfgs::sr(&mut s, Mix::Valid)
            } else {
                cfgs::rr(&mut s, Mix::Valid)
            }
        }
        "C03" => cfgs::sdes(&mut s, Mix::Valid),
        "C04" => {
            if h & 8 == 8 {
                cfgs::bye(&mut s, Mix::Valid)
            } else {
                cfgs::app(&mut s, Mix::Valid)
            }
        }
        "C05" => {
            let k = ["tfb-nack", "pfb-pli", "pfb-sli", "pfb-rpsi", "pfb-fir"][(h >> 3) as usize % 5];
            cfgs::of_kind(&mut s, k, Mix::Valid, 0)
        }
        "C14" => cfgs::compound(&mut s, mix, 0),
        "C19" => match (h >> 3) % 3 {
            0 => cfgs::unknown(&mut s, Mix::Valid),
            1 => cfgs::custom(&mut s, Mix::Valid),
            _ => {
                let a = cfgs::custom(&mut s, Mix::Valid);
                let mut b = cfgs::unknown(&mut s, Mix::Valid);
                b.set_padding(0);
                Cfg::Compound(vec![b, a])
            }
        },
        "C13" => {
            let mut c = cfgs::leaf(&mut s, Mix::Valid);
            c.set_padding(0);
            c
        }
        _ => cfgs::any(&mut s, mix),
    };
    (cfg, how)
}

/// Run the monitors of `prop` on one fuzzer input.
pub fn run_one(ctx: &mut Ctx, target: &str, prop: &str, data: &[u8]) {
    match target {
        "bytes" => match prop {
            "C01" => crate::mon::c01::check(ctx, data),
            "C08" => parsers::check_c08(ctx, data),
            "C09" => parsers::check_c09_bytes(ctx, data),
            "C10" => {
                fci_sdes::check_c10(ctx, data);
                // the same bytes behind a fixed-up SDES header, so that deep code is reached
                let mut v = vec![0x80 | (data.first().copied().unwrap_or(0) & 0x3f), 202, 0, 0];
                v.extend_from_slice(data.get(1..).unwrap_or(&[]));
                crate::gen::bytes::fix_len(&mut v);
                if v[0] & 0x20 != 0 && *v.last().unwrap() == 0 {
                    let l = v.len();
                    v[l - 1] = 4;
                }
                fci_sdes::check_c10(ctx, &v);
            }
            "C11" => parsers::check_c11(ctx, data),
            "C12" => parsers::check_c12(ctx, data),
            "C15" => {
                if data.len() >= 2 {
                    fci_sdes::check_c15_padded(ctx, data[0] & 1 == 1, data[1], &data[2..], if data[0] & 2 != 0 { (data[0] >> 2) * 4 } else { 0 });
                }
                fci_sdes::check_c15_direct(ctx, data);
            }
            "C18" => parsers::check_c18(ctx, data),
            "C19" => {
                if data.len() >= 1 {
                    let pt = crate::custom::PTS[(data[0] & 7) as usize % 6];
                    let min = crate::custom::MINS[(data[0] >> 3) as usize % 5];
                    compose::check_c19_bytes(ctx, &data[1..], pt, min);
                }
            }
            _ => crate::mon::c01::check(ctx, data),
        },
        _ => {
            let (cfg, how) = cfg_from(data, prop);
            match prop {
                "C02" | "C03" | "C04" | "C05" => roundtrip::check(ctx, &cfg, how),
                "C06" => writers::check_c06(ctx, &cfg, how),
                "C07" => writers::check_c07(ctx, &cfg, how),
                "C13" => {
                    if let Some(b) = enc::enc(&cfg) {
                        if b.len() <= 8192 && roundtrip::in_domain(&cfg) {
                            let p = 4 * (1 + data.last().copied().unwrap_or(0) as u16 % 63) as u8;
                            fci_sdes::check_c13(ctx, &b, p);
                        }
                    }
                }
                "C14" => compose::check_c14(ctx, &cfg, how),
                "C16" => writers::check_c16(ctx, &cfg, how),
                "C17" => {
                    writers::check_c17(ctx, &cfg, how);
                    writers::check_c17_subs(ctx, &cfg, how)
                }
                "C19" => compose::check_c19_cfg(ctx, &cfg, how),
                "C20" => compose::check_c20(ctx, &cfg),
                _ => writers::check_c06(ctx, &cfg, how),
            }
        }
    }
}

/// libFuzzer entry: a monitor violation becomes a crash (artifact = replayable case).
pub fn one(target: &str, data: &[u8]) {
    crate::drive::install_panic_hook();
    let p = prop();
    let mut ctx = Ctx::new(p, distinct(), seed(), true, 1.0);
    run_one(&mut ctx, target, p, data);
    if let Some(v) = ctx.violations.first() {
        eprintln!("MONITOR-VIOLATION {}\n  expected: {}\n  observed: {}", v.signature, v.expected, v.observed);
        std::process::abort();
    }
}
