//! Per-thread monitor context: what the monitors *observed* (outcome classes,
//! distinct non-trivial cases, samples) and what they *flagged* (violations).

use crate::json::{hex, J};
use std::collections::{BTreeMap, HashMap};
use std::sync::atomic::{AtomicU64, Ordering};

#[derive(Clone, Debug)]
pub struct Violation {
    pub prop: String,
    pub clause: String,
    /// narrow identity: property | clause | subject | discriminating feature
    pub signature: String,
    /// replayable case (see `replay.rs`)
    pub case: J,
    pub expected: String,
    pub observed: String,
}

/// Lower-bound counter of distinct fingerprints: one bit per hash value in a
/// fixed table (collisions can only under-count, never over-count).
pub static GLOBAL_EVALS: AtomicU64 = AtomicU64::new(0);
/// the run's fingerprint set, for the handlers that end a run early
pub static GLOBAL_DISTINCT: std::sync::OnceLock<&'static Distinct> = std::sync::OnceLock::new();

pub struct Distinct {
    bits: Vec<AtomicU64>,
    mask: u64,
}

impl Distinct {
    pub fn new(log2_bits: u32) -> Distinct {
        let words = 1usize << (log2_bits - 6);
        let mut bits = Vec::with_capacity(words);
        bits.resize_with(words, || AtomicU64::new(0));
        Distinct { bits, mask: (1u64 << log2_bits) - 1 }
    }
    #[inline]
    pub fn add(&self, h: u64) {
        let i = h & self.mask;
        self.bits[(i >> 6) as usize].fetch_or(1 << (i & 63), Ordering::Relaxed);
    }
    pub fn count(&self) -> u64 {
        self.bits.iter().map(|w| w.load(Ordering::Relaxed).count_ones() as u64).sum()
    }
}

pub fn fnv(b: &[u8]) -> u64 {
    let mut h: u64 = 0xcbf2_9ce4_8422_2325;
    for &x in b {
        h ^= x as u64;
        h = h.wrapping_mul(0x1000_0000_01b3);
    }
    // final avalanche so that low bits are usable as a table index
    h ^= h >> 32;
    h = h.wrapping_mul(0x9e37_79b9_7f4a_7c15);
    h ^ (h >> 29)
}

pub fn hash_of<T: std::hash::Hash>(t: &T) -> u64 {
    use std::hash::Hasher;
    struct F(u64);
    impl Hasher for F {
        fn finish(&self) -> u64 {
            let mut h = self.0;
            h ^= h >> 32;
            h = h.wrapping_mul(0x9e37_79b9_7f4a_7c15);
            h ^ (h >> 29)
        }
        fn write(&mut self, b: &[u8]) {
            for &x in b {
                self.0 ^= x as u64;
                self.0 = self.0.wrapping_mul(0x1000_0000_01b3);
            }
        }
    }
    let mut h = F(0xcbf2_9ce4_8422_2325);
    t.hash(&mut h);
    h.finish()
}

pub struct Ctx<'d> {
    pub prop: &'static str,
    pub evals: u64,
    pub nontrivial: u64,
    pub classes: HashMap<&'static str, u64>,
    pub classes_dyn: BTreeMap<String, u64>,
    pub violations: Vec<Violation>,
    pub violation_counts: BTreeMap<String, u64>,
    pub samples: Vec<J>,
    pub sample_cap: usize,
    pub distinct: &'d Distinct,
    pub seed: u64,
    /// "quick" | "thorough"
    pub thorough: bool,
    /// scale factor for workload sizes (1.0 = nominal for the tier); Miri / valgrind use tiny values
    pub scale: f64,
}

impl<'d> Ctx<'d> {
    pub fn new(prop: &'static str, distinct: &'d Distinct, seed: u64, thorough: bool, scale: f64) -> Ctx<'d> {
        Ctx {
            prop,
            evals: 0,
            nontrivial: 0,
            classes: HashMap::new(),
            classes_dyn: BTreeMap::new(),
            violations: vec![],
            violation_counts: BTreeMap::new(),
            samples: vec![],
            sample_cap: 6,
            distinct,
            seed,
            thorough,
            scale,
        }
    }

    /// scaled iteration count
    pub fn n(&self, nominal: usize) -> usize {
        ((nominal as f64 * self.scale) as usize).max(1)
    }

    #[inline]
    pub fn class(&mut self, c: &'static str) {
        *self.classes.entry(c).or_insert(0) += 1;
    }
    pub fn class_dyn(&mut self, c: String) {
        *self.classes_dyn.entry(c).or_insert(0) += 1;
    }
    /// add `n` observations to a class at once (exhaustive sub-spaces report their size this way)
    pub fn class_add(&mut self, c: &str, n: u64) {
        *self.classes_dyn.entry(c.to_string()).or_insert(0) += n;
    }
    #[inline]
    pub fn eval(&mut self) {
        self.evals += 1;
        // a process-wide running total (in steps of 64), so that a run that is ended by a hang or an abort can still
        // say how much it had observed by then
        if self.evals & 63 == 0 {
            GLOBAL_EVALS.fetch_add(64, Ordering::Relaxed);
        }
    }
    /// record a non-trivial case by fingerprint
    #[inline]
    pub fn nontrivial(&mut self, fp: u64) {
        self.nontrivial += 1;
        self.distinct.add(fp);
    }
    pub fn sample(&mut self, mk: impl FnOnce() -> J) {
        if self.samples.len() < self.sample_cap {
            self.samples.push(mk());
        }
    }
    /// keep a sample with probability ~1/every after the first few
    pub fn sample_sparse(&mut self, every: u64, mk: impl FnOnce() -> J) {
        if self.samples.len() < self.sample_cap && (self.evals % every == 0 || self.samples.len() < 2) {
            self.samples.push(mk());
        }
    }

    pub fn violate(
        &mut self,
        clause: &str,
        subject: &str,
        feature: &str,
        case: impl FnOnce() -> J,
        expected: impl Into<String>,
        observed: impl Into<String>,
    ) {
        // signatures stay narrow whatever a monitor puts into the feature: known findings are keyed on them
        let feature = match feature.char_indices().nth(120) {
            Some((at, _)) => &feature[..at],
            None => feature,
        };
        let signature = format!("{}|{}|{}|{}", self.prop, clause, subject, feature);
        let n = self.violation_counts.entry(signature.clone()).or_insert(0);
        *n += 1;
        if *n <= 2 {
            self.violations.push(Violation {
                prop: self.prop.to_string(),
                clause: clause.to_string(),
                signature,
                case: case(),
                expected: expected.into(),
                observed: observed.into(),
            });
        }
    }

    pub fn merge(&mut self, o: Ctx) {
        self.evals += o.evals;
        self.nontrivial += o.nontrivial;
        for (k, v) in o.classes {
            *self.classes.entry(k).or_insert(0) += v;
        }
        for (k, v) in o.classes_dyn {
            *self.classes_dyn.entry(k).or_insert(0) += v;
        }
        for (k, v) in o.violation_counts {
            *self.violation_counts.entry(k).or_insert(0) += v;
        }
        for v in o.violations {
            let have = self.violations.iter().filter(|x| x.signature == v.signature).count();
            if have < 2 {
                self.violations.push(v);
            }
        }
        for s in o.samples {
            if self.samples.len() < self.sample_cap * 2 {
                self.samples.push(s);
            }
        }
    }

    pub fn class_count(&self, c: &str) -> u64 {
        self.classes.get(c).copied().unwrap_or(0) + self.classes_dyn.get(c).copied().unwrap_or(0)
    }

    pub fn all_classes(&self) -> BTreeMap<String, u64> {
        let mut m = self.classes_dyn.clone();
        for (k, v) in &self.classes {
            *m.entry(k.to_string()).or_insert(0) += v;
        }
        m
    }
}

pub fn bytes_case(monitor: &str, b: &[u8]) -> J {
    J::obj().set("kind", "bytes").set("monitor", monitor).set("len", b.len()).set("hex", hex(b))
}

pub fn cfg_case(monitor: &str, cfg: &crate::cfg::Cfg, how: crate::drive::How) -> J {
    J::obj()
        .set("kind", "cfg")
        .set("monitor", monitor)
        .set("owned", how.owned)
        .set("wrap", how.wrap)
        .set("probe", how.probe)
        .set("reconf", how.reconf)
        .set("cfg", cfg.to_json())
}
