//! rtcpmon CLI.
//!
//!   rtcpmon run --prop C07 [--thorough] [--seed N] [--threads N] [--scale F]
//!               [--tool NAME] --out PARTIAL.json [--replays DIR]
//!   rtcpmon replay FILE.json
//!   rtcpmon selfcheck
//!
//! Exit codes: 0 no violation observed, 1 violation(s) observed (listed in the
//! partial evidence file; the `check` runner decides about known findings),
//! 2 inconclusive (harness error, model self-check failed, floor not met).

use rtcpmon::ctx::{Ctx, Distinct};
use rtcpmon::json::J;
use rtcpmon::{drive, model, mon, watchdog};
use std::time::Instant;

fn arg(args: &[String], name: &str) -> Option<String> {
    args.iter().position(|a| a == name).and_then(|i| args.get(i + 1).cloned())
}
fn flag(args: &[String], name: &str) -> bool {
    args.iter().any(|a| a == name)
}

fn main() {
    let args: Vec<String> = std::env::args().collect();
    if args.len() < 2 {
        eprintln!("usage: rtcpmon run|replay|selfcheck ...");
        std::process::exit(2);
    }
    drive::install_panic_hook();
    match args[1].as_str() {
        "selfcheck" => match model::selfcheck::run() {
            Ok(n) => println!("model self-check: {n} vectors ok"),
            Err(e) => {
                println!("INCONCLUSIVE reason=model-selfcheck-failed: {e}");
                std::process::exit(2);
            }
        },
        "run" => run(&args),
        "corpus" => corpus(&args),
        "fuzzcase" => fuzzcase(&args),
        "replay" => replay(&args),
        other => {
            eprintln!("unknown command {other}");
            std::process::exit(2);
        }
    }
}

fn inconclusive(prop: &str, out: Option<&str>, reason: &str) -> ! {
    println!("INCONCLUSIVE property={prop} reason={reason}");
    if let Some(out) = out {
        let j = J::obj().set("prop", prop).set("inconclusive", reason);
        let _ = std::fs::write(out, j.to_pretty());
    }
    std::process::exit(2);
}

fn run(args: &[String]) {
    let prop_s = arg(args, "--prop").expect("--prop");
    let prop: &'static str = Box::leak(prop_s.clone().into_boxed_str());
    let thorough = flag(args, "--thorough");
    let seed: u64 = arg(args, "--seed").and_then(|s| s.parse().ok()).unwrap_or(1);
    let threads: usize = arg(args, "--threads").and_then(|s| s.parse().ok()).unwrap_or(16).max(1);
    let scale: f64 = arg(args, "--scale").and_then(|s| s.parse().ok()).unwrap_or(1.0);
    let tool = arg(args, "--tool").unwrap_or_else(|| "native".to_string());
    let out = arg(args, "--out");
    let replays = arg(args, "--replays").unwrap_or_else(|| "/verif/out/replays".to_string());
    let uninit = flag(args, "--uninit");
    let only_shard: Option<usize> = arg(args, "--only-shard").and_then(|s| s.parse().ok());
    if flag(args, "--track-cases") {
        watchdog::track_cases(true);
    }
    mon::writers::set_uninit(uninit);

    let Some(entry) = mon::registry().into_iter().find(|e| e.id == prop) else {
        inconclusive(prop, out.as_deref(), "unknown-property");
    };

    if let Err(e) = model::selfcheck::run() {
        inconclusive(prop, out.as_deref(), &format!("model-selfcheck-failed: {e}"));
    }

    let t0 = Instant::now();
    let distinct: &'static Distinct = Box::leak(Box::new(Distinct::new(if cfg!(miri) { 16 } else { 29 })));
    let _ = rtcpmon::ctx::GLOBAL_DISTINCT.set(distinct);
    arm_watchdog(prop, &replays, seed, &tool, out.clone());

    let mut total = Ctx::new(prop, distinct, seed, thorough, scale);
    let results: Vec<std::thread::Result<Ctx>> = std::thread::scope(|sc| {
        let hs: Vec<_> = (0..threads)
            .filter(|sh| only_shard.map(|o| o == *sh).unwrap_or(true))
            .map(|shard| {
                let d = distinct;
                let run = entry.run;
                std::thread::Builder::new()
                    .stack_size(64 << 20)
                    .spawn_scoped(sc, move || {
                        let mut ctx = Ctx::new(prop, d, seed, thorough, scale);
                        run(&mut ctx, shard, threads);
                        ctx
                    })
                    .expect("spawn")
            })
            .collect();
        hs.into_iter().map(|h| h.join()).collect()
    });
    for r in results {
        match r {
            Ok(c) => total.merge(c),
            Err(_) => inconclusive(prop, out.as_deref(), "harness-panic-outside-observed-call"),
        }
    }

    let floor = (entry.floor)(&total);
    let floor_ok = floor.iter().all(|f| f.1);
    let distinct_n = distinct.count();

    // write replays
    let _ = std::fs::create_dir_all(&replays);
    let mut vj = vec![];
    let mut per_sig: std::collections::BTreeMap<String, usize> = Default::default();
    for v in &total.violations {
        let k = per_sig.entry(v.signature.clone()).or_insert(0);
        *k += 1;
        let sighash = rtcpmon::ctx::fnv(v.signature.as_bytes()) & 0xffff_ffff;
        let path = format!("{replays}/{prop}-{sighash:08x}-{k}.json");
        let rj = J::obj()
            .set("property", prop)
            .set("signature", v.signature.as_str())
            .set("clause", v.clause.as_str())
            .set("expected", v.expected.as_str())
            .set("observed", v.observed.as_str())
            .set("seed", seed)
            .set("tool", tool.as_str())
            .set("case", v.case.clone());
        let _ = std::fs::write(&path, rj.to_pretty());
        vj.push(
            J::obj()
                .set("signature", v.signature.as_str())
                .set("clause", v.clause.as_str())
                .set("expected", v.expected.as_str())
                .set("observed", v.observed.as_str())
                .set("replay", path.as_str())
                .set("count", *total.violation_counts.get(&v.signature).unwrap_or(&1)),
        );
    }

    let classes = total.all_classes();
    let mut cj = J::obj();
    for (k, v) in &classes {
        cj.put(k, *v);
    }
    let j = J::obj()
        .set("prop", prop)
        .set("tool", tool.as_str())
        .set("thorough", thorough)
        .set("seed", seed)
        .set("threads", threads)
        .set("scale", scale)
        .set("evaluations", total.evals)
        .set("nontrivial_evaluations", total.nontrivial)
        .set("distinct_nontrivial", distinct_n)
        .set("rule", entry.rule)
        .set("outcome_classes", cj)
        .set(
            "floor",
            J::Arr(floor.iter().map(|(c, ok)| J::obj().set("class", c.as_str()).set("seen", *ok)).collect()),
        )
        .set("floor_met", floor_ok)
        .set("samples", J::Arr(total.samples.clone()))
        .set("violations", J::Arr(vj))
        .set("violation_signatures", total.violation_counts.len())
        .set("wall_s", t0.elapsed().as_secs_f64());
    if let Some(out) = &out {
        if let Some(dir) = std::path::Path::new(out).parent() {
            let _ = std::fs::create_dir_all(dir);
        }
        std::fs::write(out, j.to_pretty()).expect("write partial evidence");
    }

    println!(
        "{prop} [{tool}{}] seed={seed}: {} evaluations, {} distinct non-trivial, {} outcome classes, {} violation signature(s), {:.1}s",
        if thorough { " thorough" } else { " quick" },
        total.evals,
        distinct_n,
        classes.len(),
        total.violation_counts.len(),
        t0.elapsed().as_secs_f64()
    );
    for (sig, n) in &total.violation_counts {
        println!("RAW-VIOLATION property={prop} signature={sig} count={n}");
    }
    if !total.violation_counts.is_empty() {
        std::process::exit(1);
    }
    if !floor_ok && scale >= 1.0 && only_shard.is_none() {
        let missing: Vec<_> = floor.iter().filter(|f| !f.1).map(|f| f.0.clone()).collect();
        println!("INCONCLUSIVE property={prop} reason=observation-floor-not-met missing={}", missing.join(","));
        std::process::exit(2);
    }
}

/// Arm the hang detector: a CPU-time-confirmed stall inside an observed call is a violation
/// (exit 3, HANG line, replay file with the exact case); a stall outside one is a harness error (exit 2).
fn arm_watchdog(prop: &'static str, replays: &str, seed: u64, tool: &str, out: Option<String>) {
    let replays = replays.to_string();
    let tool = tool.to_string();
    watchdog::arm(move |stall| match stall {
        watchdog::Stall::InCall(case) => {
            let _ = std::fs::create_dir_all(&replays);
            let path = format!("{replays}/{prop}-hang.json");
            let subject = case.gs("monitor").unwrap_or("unknown").to_string();
            let j = J::obj()
                .set("property", prop)
                .set("signature", format!("{prop}|terminates|{subject}|cpu-time-confirmed-hang"))
                .set("clause", "terminates")
                .set("expected", "every call into the crate returns")
                .set("observed", format!("one observed call did not return while its thread burned >= {} s of CPU", watchdog::CALL_CPU_LIMIT_S))
                .set("seed", seed)
                .set("tool", tool.as_str())
                .set("case", case);
            let _ = std::fs::write(&path, j.to_pretty());
            if let Some(out) = &out {
                // what the run had observed when it was ended
                let j = J::obj()
                    .set("prop", prop)
                    .set("tool", tool.as_str())
                    .set("ended_early", true)
                    .set("evaluations", rtcpmon::ctx::GLOBAL_EVALS.load(std::sync::atomic::Ordering::Relaxed).max(1))
                    .set("distinct_nontrivial", rtcpmon::ctx::GLOBAL_DISTINCT.get().map(|d| d.count()).unwrap_or(0))
                    .set("rule", "counters at the moment the run was ended by a hang / abort of the code under test (evaluations in steps of 64)");
                if let Some(dir) = std::path::Path::new(out).parent() {
                    let _ = std::fs::create_dir_all(dir);
                }
                let _ = std::fs::write(out, j.to_pretty());
            }
            println!("HANG property={prop} subject={subject} replay={path}");
            std::process::exit(3);
        }
        watchdog::Stall::AbortInCall(case) => {
            let _ = std::fs::create_dir_all(&replays);
            let path = format!("{replays}/{prop}-abort.json");
            let subject = case.gs("monitor").unwrap_or("unknown").to_string();
            let j = J::obj()
                .set("property", prop)
                .set("signature", format!("{prop}|returns-normally|{subject}|process-abort-in-observed-call"))
                .set("clause", "returns-normally")
                .set("expected", "every call into the crate returns (a value, an error, or at worst an unwind)")
                .set("observed", "the process was aborted (SIGABRT: stack exhaustion through unbounded recursion, allocation failure or abort()) by a thread that was inside an observed call on this case")
                .set("seed", seed)
                .set("tool", tool.as_str())
                .set("case", case);
            let _ = std::fs::write(&path, j.to_pretty());
            if let Some(out) = &out {
                // what the run had observed when it was ended
                let j = J::obj()
                    .set("prop", prop)
                    .set("tool", tool.as_str())
                    .set("ended_early", true)
                    .set("evaluations", rtcpmon::ctx::GLOBAL_EVALS.load(std::sync::atomic::Ordering::Relaxed).max(1))
                    .set("distinct_nontrivial", rtcpmon::ctx::GLOBAL_DISTINCT.get().map(|d| d.count()).unwrap_or(0))
                    .set("rule", "counters at the moment the run was ended by a hang / abort of the code under test (evaluations in steps of 64)");
                if let Some(dir) = std::path::Path::new(out).parent() {
                    let _ = std::fs::create_dir_all(dir);
                }
                let _ = std::fs::write(out, j.to_pretty());
            }
            println!("ABORT property={prop} subject={subject} replay={path}");
            // (no destructors, no atexit handlers: the aborting thread is parked in a signal handler in the middle of
            // whatever it was doing)
            let _ = std::io::Write::flush(&mut std::io::stdout());
            extern "C" {
                fn _exit(code: i32) -> !;
            }
            unsafe { _exit(4) }
        }
        watchdog::Stall::AbortHarness(case) => {
            let _ = std::fs::create_dir_all(&replays);
            let path = format!("{replays}/{prop}-harness-abort.json");
            let _ = std::fs::write(&path, J::obj().set("property", prop).set("kind", "harness-abort").set("case", case).to_pretty());
            println!("INCONCLUSIVE property={prop} reason=process-abort-outside-observed-call (see {path})");
            if let Some(out) = &out {
                let j = J::obj().set("prop", prop).set("inconclusive", "process-abort-outside-observed-call");
                let _ = std::fs::write(out, j.to_pretty());
            }
            let _ = std::io::Write::flush(&mut std::io::stdout());
            extern "C" {
                fn _exit(code: i32) -> !;
            }
            unsafe { _exit(2) }
        }
        watchdog::Stall::Harness(case) => {
            let _ = std::fs::create_dir_all(&replays);
            let path = format!("{replays}/{prop}-harness-stall.json");
            let _ = std::fs::write(&path, J::obj().set("property", prop).set("kind", "harness-stall").set("case", case).to_pretty());
            println!("INCONCLUSIVE property={prop} reason=harness-stall-outside-observed-call (see {path})");
            if let Some(out) = &out {
                let j = J::obj().set("prop", prop).set("inconclusive", "harness-stall-outside-observed-call");
                let _ = std::fs::write(out, j.to_pretty());
            }
            std::process::exit(2);
        }
    });
}

fn replay(args: &[String]) {
    let path = args.get(2).expect("replay FILE");
    let text = std::fs::read_to_string(path).expect("read replay file");
    let j = J::parse(&text).expect("parse replay file");
    let prop_s = j.gs("property").expect("property").to_string();
    let prop: &'static str = Box::leak(prop_s.into_boxed_str());
    let seed = j.gi("seed").unwrap_or(1) as u64;
    let case = j.get("case").expect("case");
    let distinct = Distinct::new(16);
    let mut ctx = Ctx::new(prop, &distinct, seed, false, 1.0);
    let rdir = std::path::Path::new(path).parent().map(|p| p.join("again").to_string_lossy().to_string()).unwrap_or_else(|| "/verif/out/replays/again".into());
    arm_watchdog(prop, &rdir, seed, "replay", None);
    if let Err(e) = mon::replay_case(&mut ctx, case) {
        println!("INCONCLUSIVE property={prop} reason=cannot-replay: {e}");
        std::process::exit(2);
    }
    let want = j.gs("signature").unwrap_or("");
    let mut reproduced = false;
    for v in &ctx.violations {
        println!("REPLAYED property={prop} signature={}\n  expected: {}\n  observed: {}", v.signature, v.expected, v.observed);
        if v.signature == want || want.is_empty() {
            reproduced = true;
        }
    }
    if reproduced {
        println!("VIOLATION property={prop} replay={path}");
        std::process::exit(1);
    } else if !ctx.violations.is_empty() {
        println!("VIOLATION property={prop} replay={path} (different signature than recorded)");
        std::process::exit(1);
    } else {
        println!("replay of {path}: property {prop} holds on this case now");
    }
}

/// Write a seed corpus for a fuzz target (generated at run time from the model encoder).
fn corpus(args: &[String]) {
    use rtcpmon::source::Src;
    let target = arg(args, "--target").unwrap_or_else(|| "bytes".into());
    let dir = arg(args, "--dir").expect("--dir");
    let seed: u64 = arg(args, "--seed").and_then(|s| s.parse().ok()).unwrap_or(1);
    std::fs::create_dir_all(&dir).expect("corpus dir");
    let mut s = Src::prng(rtcpmon::source::mix(seed, 0xc0ffee));
    let n = 400;
    for i in 0..n {
        let data: Vec<u8> = if target == "bytes" {
            match i % 4 {
                0 => rtcpmon::gen::bytes::valid_compound(&mut s),
                1 => rtcpmon::gen::bytes::hostile(&mut s),
                _ => rtcpmon::gen::bytes::valid_packet(&mut s),
            }
        } else {
            let l = 64 + s.below(1500);
            s.fill(l)
        };
        if data.len() <= 4096 {
            std::fs::write(format!("{dir}/seed-{i:04}"), &data).expect("write seed");
        }
    }
    println!("wrote {n} seed inputs for target {target} to {dir}");
}

/// Run the monitors of a property on a recorded fuzzer artifact, write replay files.
fn fuzzcase(args: &[String]) {
    let target = arg(args, "--target").unwrap_or_else(|| "bytes".into());
    let prop_s = arg(args, "--prop").expect("--prop");
    let prop: &'static str = Box::leak(prop_s.into_boxed_str());
    let file = arg(args, "--file").expect("--file");
    let seed: u64 = arg(args, "--seed").and_then(|s| s.parse().ok()).unwrap_or(1);
    let replays = arg(args, "--replays").unwrap_or_else(|| "/verif/out/replays".to_string());
    let data = std::fs::read(&file).expect("read artifact");
    let distinct = Distinct::new(16);
    let mut ctx = Ctx::new(prop, &distinct, seed, true, 1.0);
    rtcpmon::fuzz::run_one(&mut ctx, &target, prop, &data);
    let _ = std::fs::create_dir_all(&replays);
    for (k, v) in ctx.violations.iter().enumerate() {
        let sighash = rtcpmon::ctx::fnv(v.signature.as_bytes()) & 0xffff_ffff;
        let path = format!("{replays}/{prop}-fuzz-{sighash:08x}-{k}.json");
        let rj = J::obj()
            .set("property", prop)
            .set("signature", v.signature.as_str())
            .set("clause", v.clause.as_str())
            .set("expected", v.expected.as_str())
            .set("observed", v.observed.as_str())
            .set("seed", seed)
            .set("tool", "libfuzzer")
            .set("artifact", file.as_str())
            .set("case", v.case.clone());
        let _ = std::fs::write(&path, rj.to_pretty());
        println!("RAW-VIOLATION property={prop} signature={} replay={path}", v.signature);
    }
    if ctx.violations.is_empty() {
        println!("artifact {file}: the {prop} monitors are silent on it");
    } else {
        std::process::exit(1);
    }
}
