//! rtcpmon: runtime monitors for rtcp-types (properties C01..C20).
pub mod cfg;
pub mod ctx;
pub mod custom;
pub mod drive;
pub mod expect;
pub mod fuzz;
pub mod gen;
pub mod json;
pub mod model;
pub mod mon;
pub mod obs;
pub mod source;
pub mod watchdog;
