//! Entropy source shared by every generator: either a seeded SplitMix64 PRNG
//! (deterministic, sharded runs) or a cursor over fuzzer-supplied bytes
//! (coverage-guided runs). Exhausted byte sources yield zeros, so every
//! generator terminates on every fuzzer input.

pub enum Src<'a> {
    Prng(u64),
    Bytes { data: &'a [u8], pos: usize },
}

pub fn splitmix(state: &mut u64) -> u64 {
    *state = state.wrapping_add(0x9e37_79b9_7f4a_7c15);
    let mut z = *state;
    z = (z ^ (z >> 30)).wrapping_mul(0xbf58_476d_1ce4_e5b9);
    z = (z ^ (z >> 27)).wrapping_mul(0x94d0_49bb_1331_11eb);
    z ^ (z >> 31)
}

pub fn mix(a: u64, b: u64) -> u64 {
    let mut s = a ^ b.wrapping_mul(0xd6e8_feb8_6659_fd93);
    splitmix(&mut s)
}

impl<'a> Src<'a> {
    pub fn prng(seed: u64) -> Src<'static> {
        Src::Prng(seed)
    }
    pub fn bytes(data: &'a [u8]) -> Src<'a> {
        Src::Bytes { data, pos: 0 }
    }
    pub fn exhausted(&self) -> bool {
        match self {
            Src::Prng(_) => false,
            Src::Bytes { data, pos } => *pos >= data.len(),
        }
    }
    pub fn u8(&mut self) -> u8 {
        match self {
            Src::Prng(s) => splitmix(s) as u8,
            Src::Bytes { data, pos } => {
                let v = data.get(*pos).copied().unwrap_or(0);
                *pos += 1;
                v
            }
        }
    }
    pub fn u16(&mut self) -> u16 {
        match self {
            Src::Prng(s) => splitmix(s) as u16,
            _ => u16::from_be_bytes([self.u8(), self.u8()]),
        }
    }
    pub fn u32(&mut self) -> u32 {
        match self {
            Src::Prng(s) => splitmix(s) as u32,
            _ => u32::from_be_bytes([self.u8(), self.u8(), self.u8(), self.u8()]),
        }
    }
    pub fn u64(&mut self) -> u64 {
        match self {
            Src::Prng(s) => splitmix(s),
            _ => ((self.u32() as u64) << 32) | self.u32() as u64,
        }
    }
    /// uniform-ish in 0..n (n>0)
    pub fn below(&mut self, n: usize) -> usize {
        if n <= 1 {
            return 0;
        }
        match self {
            Src::Prng(s) => (splitmix(s) % n as u64) as usize,
            _ => {
                if n <= 256 {
                    self.u8() as usize % n
                } else if n <= 65536 {
                    self.u16() as usize % n
                } else {
                    self.u32() as usize % n
                }
            }
        }
    }
    pub fn range(&mut self, lo: usize, hi_incl: usize) -> usize {
        lo + self.below(hi_incl - lo + 1)
    }
    /// true with probability num/den
    pub fn chance(&mut self, num: usize, den: usize) -> bool {
        self.below(den) < num
    }
    pub fn pick<T: Copy>(&mut self, xs: &[T]) -> T {
        xs[self.below(xs.len())]
    }
    pub fn fill(&mut self, n: usize) -> Vec<u8> {
        let mut v = Vec::with_capacity(n);
        match self {
            Src::Prng(s) => {
                while v.len() + 8 <= n {
                    v.extend_from_slice(&splitmix(s).to_le_bytes());
                }
                while v.len() < n {
                    v.push(splitmix(s) as u8);
                }
            }
            _ => {
                for _ in 0..n {
                    v.push(self.u8());
                }
            }
        }
        v
    }
    /// a 32-bit value biased to boundary patterns (zeros in each byte position etc.)
    pub fn u32_edgy(&mut self) -> u32 {
        const E: [u32; 16] = [
            0, 1, 0xff, 0x100, 0xff00, 0xffff, 0x10000, 0xff0000, 0xffffff, 0x1000000, 0xff000000, 0x7fffffff,
            0x80000000, 0xfffffffe, 0xffffffff, 0x00ff00ff,
        ];
        match self.below(4) {
            0 => E[self.below(16)],
            1 => {
                // random with one byte zeroed
                let v = self.u32();
                v & !(0xffu32 << (8 * self.below(4)))
            }
            _ => self.u32(),
        }
    }
    pub fn shuffle<T>(&mut self, v: &mut [T]) {
        for i in (1..v.len()).rev() {
            let j = self.below(i + 1);
            v.swap(i, j);
        }
    }
}
