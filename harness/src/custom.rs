//! A family of third-party packet types `Custom<PT, MIN>` written with the
//! crate's *public* API only (the same way tests/custom_packet.rs does it):
//! parser through `utils::parser::check_packet`, writer through
//! `utils::writer::{check_padding, write_header_unchecked, write_padding_unchecked}`,
//! conversions through `TryFrom<&Unknown>` / `TryFrom<&Packet>`.

use rtcp_types::prelude::*;
use rtcp_types::utils::{parser, writer};
use rtcp_types::{Packet, RtcpParseError, RtcpWriteError, Unknown};

pub const PTS: [u8; 6] = [0, 192, 199, 207, 242, 255];
pub const MINS: [usize; 5] = [4, 8, 12, 16, 32];

#[derive(Debug, PartialEq, Eq, Clone)]
pub struct Custom<'a, const PT: u8, const MIN: usize> {
    data: &'a [u8],
}

impl<'a, const PT: u8, const MIN: usize> RtcpPacket for Custom<'a, PT, MIN> {
    const MIN_PACKET_LEN: usize = MIN;
    const PACKET_TYPE: u8 = PT;
}

impl<'a, const PT: u8, const MIN: usize> RtcpPacketParser<'a> for Custom<'a, PT, MIN> {
    fn parse(data: &'a [u8]) -> Result<Self, RtcpParseError> {
        parser::check_packet::<Self>(data)?;
        Ok(Self { data })
    }
    fn header_data(&self) -> [u8; 4] {
        self.data[..4].try_into().unwrap()
    }
}

impl<'a, const PT: u8, const MIN: usize> Custom<'a, PT, MIN> {
    pub fn padding(&self) -> Option<u8> {
        parser::parse_padding(self.data)
    }
    /// everything after the header, before the padding
    pub fn body(&self) -> &'a [u8] {
        let pad = self.padding().unwrap_or(0) as usize;
        let end = self.data.len().saturating_sub(pad).max(4);
        &self.data[4..end]
    }
    pub fn raw(&self) -> &'a [u8] {
        self.data
    }
}

impl<'a, const PT: u8, const MIN: usize> TryFrom<&'a Unknown<'a>> for Custom<'a, PT, MIN> {
    type Error = RtcpParseError;
    fn try_from(p: &'a Unknown<'a>) -> Result<Self, Self::Error> {
        Self::parse(p.data())
    }
}

impl<'a, const PT: u8, const MIN: usize> TryFrom<&'a Packet<'a>> for Custom<'a, PT, MIN> {
    type Error = RtcpParseError;
    fn try_from(p: &'a Packet<'a>) -> Result<Self, Self::Error> {
        match p {
            Packet::Unknown(u) => Self::try_from(u),
            other => Err(RtcpParseError::PacketTypeMismatch { actual: other.type_(), requested: PT }),
        }
    }
}

/// A second third-party family that overrides the trait's *defaulted* constant `MAX_COUNT` as well (a packet type
/// whose count field only ever takes values up to `MC`): `MAX_COUNT` is a maximum, not a bit mask, and the public
/// helpers must treat a legal count of such a type like any other.
#[derive(Debug, PartialEq, Eq, Clone)]
pub struct Odd<'a, const MC: u8> {
    data: &'a [u8],
}
pub const ODD_PT: u8 = 208;
impl<'a, const MC: u8> RtcpPacket for Odd<'a, MC> {
    const MAX_COUNT: u8 = MC;
    const MIN_PACKET_LEN: usize = 4;
    const PACKET_TYPE: u8 = ODD_PT;
}
impl<'a, const MC: u8> RtcpPacketParser<'a> for Odd<'a, MC> {
    fn parse(data: &'a [u8]) -> Result<Self, RtcpParseError> {
        parser::check_packet::<Self>(data)?;
        Ok(Self { data })
    }
    fn header_data(&self) -> [u8; 4] {
        self.data[..4].try_into().unwrap()
    }
}
/// (header image written by the public helper into `buf`, returned size, count read back through the parser)
pub fn odd_header(mc: u8, padding: u8, count: u8, buf: &mut [u8]) -> Option<(usize, Result<u8, RtcpParseError>)> {
    fn go<const MC: u8>(padding: u8, count: u8, buf: &mut [u8]) -> (usize, Result<u8, RtcpParseError>) {
        let n = writer::write_header_unchecked::<Odd<MC>>(padding, count, buf);
        if padding > 0 {
            let l = buf.len();
            writer::write_padding_unchecked(padding, &mut buf[l - padding as usize..]);
        }
        (n, Odd::<MC>::parse(buf).map(|p| p.count()))
    }
    Some(match mc {
        4 => go::<4>(padding, count, buf),
        10 => go::<10>(padding, count, buf),
        16 => go::<16>(padding, count, buf),
        30 => go::<30>(padding, count, buf),
        _ => return None,
    })
}

#[derive(Debug)]
pub struct CustomBuilder<'a, const PT: u8, const MIN: usize> {
    pub count: u8,
    pub body: &'a [u8],
    pub padding: u8,
    /// Both ways of implementing `get_padding()` ("gets the padding that was configured") occur in
    /// third-party writers: `None` for zero (as tests/custom_packet.rs does) or `Some(self.padding)`
    /// always. With this flag set a zero padding is reported as `Some(0)`.
    pub report_some_zero: bool,
}

impl<'a, const PT: u8, const MIN: usize> RtcpPacketWriter for CustomBuilder<'a, PT, MIN> {
    fn calculate_size(&self) -> Result<usize, RtcpWriteError> {
        writer::check_padding(self.padding)?;
        if self.count > 31 {
            return Err(RtcpWriteError::CountOutOfRange { count: self.count, max: 31 });
        }
        if self.body.len() % 4 != 0 || 4 + self.body.len() < MIN {
            return Err(RtcpWriteError::DataLen32bitMultiple(self.body.len()));
        }
        Ok(4 + self.body.len() + self.padding as usize)
    }
    fn write_into_unchecked(&self, buf: &mut [u8]) -> usize {
        let mut idx = writer::write_header_unchecked::<Custom<PT, MIN>>(self.padding, self.count, buf);
        let end = idx + self.body.len();
        buf[idx..end].copy_from_slice(self.body);
        idx = end;
        idx += writer::write_padding_unchecked(self.padding, &mut buf[idx..]);
        idx
    }
    fn get_padding(&self) -> Option<u8> {
        if self.padding == 0 && !self.report_some_zero {
            None
        } else {
            Some(self.padding)
        }
    }
}

/// Run `$body` with `$C` / `$B` bound to the `Custom<PT,MIN>` parser / builder
/// types selected at run time by `($pt, $min)`; evaluates to `None` for a pair
/// outside the family.
#[macro_export]
macro_rules! custom_arm {
    ($C:ident, $B:ident, $body:expr, $p:literal, $m:literal) => {{
        #[allow(dead_code)]
        type $C<'x> = $crate::custom::Custom<'x, $p, $m>;
        #[allow(dead_code)]
        type $B<'x> = $crate::custom::CustomBuilder<'x, $p, $m>;
        Some($body)
    }};
}

#[macro_export]
macro_rules! with_custom {
    ($pt:expr, $min:expr, $C:ident, $B:ident, $body:expr) => {
        match ($pt, $min) {
            (0u8, 4usize) => $crate::custom_arm!($C, $B, $body, 0, 4),
            (0u8, 8usize) => $crate::custom_arm!($C, $B, $body, 0, 8),
            (0u8, 12usize) => $crate::custom_arm!($C, $B, $body, 0, 12),
            (0u8, 16usize) => $crate::custom_arm!($C, $B, $body, 0, 16),
            (0u8, 32usize) => $crate::custom_arm!($C, $B, $body, 0, 32),
            (192u8, 4usize) => $crate::custom_arm!($C, $B, $body, 192, 4),
            (192u8, 8usize) => $crate::custom_arm!($C, $B, $body, 192, 8),
            (192u8, 12usize) => $crate::custom_arm!($C, $B, $body, 192, 12),
            (192u8, 16usize) => $crate::custom_arm!($C, $B, $body, 192, 16),
            (192u8, 32usize) => $crate::custom_arm!($C, $B, $body, 192, 32),
            (199u8, 4usize) => $crate::custom_arm!($C, $B, $body, 199, 4),
            (199u8, 8usize) => $crate::custom_arm!($C, $B, $body, 199, 8),
            (199u8, 12usize) => $crate::custom_arm!($C, $B, $body, 199, 12),
            (199u8, 16usize) => $crate::custom_arm!($C, $B, $body, 199, 16),
            (199u8, 32usize) => $crate::custom_arm!($C, $B, $body, 199, 32),
            (207u8, 4usize) => $crate::custom_arm!($C, $B, $body, 207, 4),
            (207u8, 8usize) => $crate::custom_arm!($C, $B, $body, 207, 8),
            (207u8, 12usize) => $crate::custom_arm!($C, $B, $body, 207, 12),
            (207u8, 16usize) => $crate::custom_arm!($C, $B, $body, 207, 16),
            (207u8, 32usize) => $crate::custom_arm!($C, $B, $body, 207, 32),
            (242u8, 4usize) => $crate::custom_arm!($C, $B, $body, 242, 4),
            (242u8, 8usize) => $crate::custom_arm!($C, $B, $body, 242, 8),
            (242u8, 12usize) => $crate::custom_arm!($C, $B, $body, 242, 12),
            (242u8, 16usize) => $crate::custom_arm!($C, $B, $body, 242, 16),
            (242u8, 32usize) => $crate::custom_arm!($C, $B, $body, 242, 32),
            (255u8, 4usize) => $crate::custom_arm!($C, $B, $body, 255, 4),
            (255u8, 8usize) => $crate::custom_arm!($C, $B, $body, 255, 8),
            (255u8, 12usize) => $crate::custom_arm!($C, $B, $body, 255, 12),
            (255u8, 16usize) => $crate::custom_arm!($C, $B, $body, 255, 16),
            (255u8, 32usize) => $crate::custom_arm!($C, $B, $body, 255, 32),
            _ => None,
        }
    };
}
