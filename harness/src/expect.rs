//! What a parsed view must report for a given configuration (the round-trip
//! identity used by C02–C05 and by the second half of C09).

use crate::cfg::{Cfg, FbKind, Fci};
use crate::model::dec::Bits;
use crate::obs::{ChunkObs, Content, FciObs, ItemObs, RbObs};

pub fn rb(b: &crate::cfg::Rb) -> RbObs {
    RbObs {
        ssrc: b.ssrc,
        fraction: b.fraction,
        cumulative: b.cumulative,
        ext_seq: b.ext_seq,
        jitter: b.jitter,
        lsr: b.lsr,
        dlsr: b.dlsr,
    }
}

/// Expected content for a representable leaf configuration (None for kinds
/// that have no typed content view: Custom, Compound).
pub fn content(cfg: &Cfg) -> Option<Content> {
    Some(match cfg {
        Cfg::Sr { ssrc, ntp, rtp, pc, oc, blocks, .. } => Content::Sr {
            ssrc: *ssrc,
            ntp: *ntp,
            rtp: *rtp,
            pc: *pc,
            oc: *oc,
            n_reports: blocks.len() as u8,
            blocks: blocks.iter().map(rb).collect(),
        },
        Cfg::Rr { ssrc, blocks, .. } => {
            Content::Rr { ssrc: *ssrc, n_reports: blocks.len() as u8, blocks: blocks.iter().map(rb).collect() }
        }
        Cfg::Sdes { chunks, .. } => Content::Sdes {
            chunks: chunks
                .iter()
                .map(|c| ChunkObs {
                    ssrc: c.ssrc,
                    length: crate::model::enc::sdes_chunk_len(c),
                    items: c
                        .items
                        .iter()
                        .map(|i| ItemObs {
                            type_: i.type_,
                            length: if i.type_ == 8 { 1 + i.prefix.len() + i.value.len() } else { i.value.len() },
                            value: i.value.as_bytes().to_vec(),
                            prefix: if i.type_ == 8 { Some(i.prefix.clone()) } else { None },
                            value_string_ok: true,
                        })
                        .collect(),
                })
                .collect(),
        },
        Cfg::Bye { sources, reason, .. } => Content::Bye {
            ssrcs: sources.clone(),
            reason: if reason.is_empty() { None } else { Some(reason.as_bytes().to_vec()) },
            reason_string: if reason.is_empty() { None } else { Some(Ok(reason.clone())) },
        },
        Cfg::App { ssrc, subtype, name, data, .. } => {
            let mut n = [0u8; 4];
            n[..name.len().min(4)].copy_from_slice(&name.as_bytes()[..name.len().min(4)]);
            let upto = n.iter().position(|&b| b == 0).unwrap_or(4);
            Content::App {
                ssrc: *ssrc,
                subtype: *subtype,
                name: n,
                name_string: String::from_utf8(n[..upto].to_vec()).map_err(|_| ()),
                data: data.clone(),
            }
        }
        Cfg::Fb { kind, sender, media, fci, .. } => Content::Fb {
            transport: *kind == FbKind::Transport,
            fmt: fci.format(),
            sender: *sender,
            media: *media,
            fci: FciObs {
                nack: match fci {
                    Fci::Nack(l) => Ok(Fci::nack_final(l)),
                    _ => Err(String::new()),
                },
                pli: match fci {
                    Fci::Pli => Ok(()),
                    _ => Err(String::new()),
                },
                sli: match fci {
                    Fci::Sli(l) => Ok(l.clone()),
                    _ => Err(String::new()),
                },
                rpsi: match fci {
                    Fci::Rpsi { pt, bits, overrun } => Ok((*pt, bits.clone(), *overrun as usize)),
                    _ => Err(String::new()),
                },
                fir: match fci {
                    Fci::Fir(l) => Ok(Fci::fir_final(l)),
                    _ => Err(String::new()),
                },
            },
        },
        Cfg::Unknown { .. } | Cfg::Custom { .. } | Cfg::Compound(_) => return None,
    })
}

/// Compare an observed content against the expected one, field by field, with
/// the relaxations the properties state. `check_chunk_len` adds C10's clause.
pub fn same(exp: &Content, got: &Content, check_chunk_len: bool) -> Result<(), String> {
    macro_rules! eq {
        ($name:literal, $a:expr, $b:expr) => {
            if $a != $b {
                return Err(format!("{}: expected {:?}, parsed view reports {:?}", $name, $a, $b));
            }
        };
    }
    fn blocks(a: &[RbObs], b: &[RbObs]) -> Result<(), String> {
        if a.len() != b.len() {
            return Err(format!("report blocks: expected {} blocks, got {}", a.len(), b.len()));
        }
        for (i, (x, y)) in a.iter().zip(b).enumerate() {
            if x != y {
                return Err(format!("report block {i}: expected {x:?}, got {y:?}"));
            }
        }
        Ok(())
    }
    match (exp, got) {
        (
            Content::Sr { ssrc, ntp, rtp, pc, oc, n_reports, blocks: bl },
            Content::Sr { ssrc: s2, ntp: n2, rtp: r2, pc: p2, oc: o2, n_reports: nr2, blocks: b2 },
        ) => {
            eq!("ssrc", ssrc, s2);
            eq!("ntp_timestamp", ntp, n2);
            eq!("rtp_timestamp", rtp, r2);
            eq!("packet_count", pc, p2);
            eq!("octet_count", oc, o2);
            eq!("n_reports", n_reports, nr2);
            blocks(bl, b2)
        }
        (Content::Rr { ssrc, n_reports, blocks: bl }, Content::Rr { ssrc: s2, n_reports: nr2, blocks: b2 }) => {
            eq!("ssrc", ssrc, s2);
            eq!("n_reports", n_reports, nr2);
            blocks(bl, b2)
        }
        (Content::Sdes { chunks: a }, Content::Sdes { chunks: b }) => {
            if a.len() != b.len() {
                return Err(format!(
                    "chunks: expected {} chunks {:?}, got {} chunks {:?}",
                    a.len(),
                    a.iter().map(|c| c.ssrc).collect::<Vec<_>>(),
                    b.len(),
                    b.iter().map(|c| c.ssrc).collect::<Vec<_>>()
                ));
            }
            for (k, (x, y)) in a.iter().zip(b).enumerate() {
                if x.ssrc != y.ssrc {
                    return Err(format!("chunk {k}: expected ssrc {:08x}, got {:08x}", x.ssrc, y.ssrc));
                }
                if x.items.len() != y.items.len() {
                    return Err(format!("chunk {k}: expected {} items, got {}", x.items.len(), y.items.len()));
                }
                for (m, (i, j)) in x.items.iter().zip(&y.items).enumerate() {
                    if i.type_ != j.type_ || i.value != j.value || i.prefix != j.prefix || i.length != j.length {
                        return Err(format!(
                            "chunk {k} item {m}: expected type {} len {} value {} prefix {:?}, got type {} len {} value {} prefix {:?}",
                            i.type_,
                            i.length,
                            crate::json::hex(&i.value),
                            i.prefix.as_ref().map(|p| crate::json::hex(p)),
                            j.type_,
                            j.length,
                            crate::json::hex(&j.value),
                            j.prefix.as_ref().map(|p| crate::json::hex(p))
                        ));
                    }
                    if i.value_string_ok && !j.value_string_ok {
                        return Err(format!("chunk {k} item {m}: get_value_string() fails on a UTF-8 value"));
                    }
                }
                if check_chunk_len && x.length != y.length {
                    return Err(format!(
                        "chunk {k}: length() reports {}, the chunk occupies {} bytes on the wire",
                        y.length, x.length
                    ));
                }
            }
            Ok(())
        }
        (
            Content::Bye { ssrcs, reason, reason_string },
            Content::Bye { ssrcs: s2, reason: r2, reason_string: rs2 },
        ) => {
            eq!("ssrcs", ssrcs, s2);
            eq!("reason", reason, r2);
            eq!("get_reason_string", reason_string, rs2);
            Ok(())
        }
        (
            Content::App { ssrc, subtype, name, name_string, data },
            Content::App { ssrc: s2, subtype: st2, name: n2, name_string: ns2, data: d2 },
        ) => {
            eq!("ssrc", ssrc, s2);
            eq!("subtype", subtype, st2);
            eq!("name", name, n2);
            eq!("get_name_string", name_string, ns2);
            if data != d2 {
                return Err(format!(
                    "data: expected {} bytes, got {} bytes{}",
                    data.len(),
                    d2.len(),
                    if data.len() == d2.len() { " with different content" } else { "" }
                ));
            }
            Ok(())
        }
        (
            Content::Fb { transport, fmt, sender, media, fci },
            Content::Fb { transport: t2, fmt: f2, sender: s2, media: m2, fci: g },
        ) => {
            eq!("feedback kind (transport?)", transport, t2);
            eq!("format", fmt, f2);
            eq!("sender_ssrc", sender, s2);
            eq!("media_ssrc", media, m2);
            if let Ok(e) = &fci.nack {
                match &g.nack {
                    Ok(o) if o == e => {}
                    other => {
                        return Err(format!(
                            "NACK entries: expected {} ascending numbers {:?}.., decoded {:?}",
                            e.len(),
                            &e[..e.len().min(24)],
                            other.as_ref().map(|o| &o[..o.len().min(40)])
                        ))
                    }
                }
            }
            if fci.pli.is_ok() && g.pli.is_err() {
                return Err(format!("PLI: parse_fci::<Pli>() fails: {:?}", g.pli));
            }
            if let Ok(e) = &fci.sli {
                match &g.sli {
                    Ok(o) if o == e => {}
                    other => return Err(format!("SLI entries: expected {:?}, decoded {:?}", e, other)),
                }
            }
            if let Ok(e) = &fci.fir {
                match &g.fir {
                    Ok(o) => {
                        let mut a = e.clone();
                        let mut b = o.clone();
                        a.sort_unstable();
                        b.sort_unstable();
                        if a != b {
                            return Err(format!("FIR map: expected {:?}, decoded {:?}", a, b));
                        }
                    }
                    other => return Err(format!("FIR map: expected {:?}, decoded {:?}", e, other)),
                }
            }
            if let Ok((pt, bytes, ign)) = &fci.rpsi {
                match &g.rpsi {
                    Ok((pt2, b2, ign2)) => {
                        if pt != pt2 {
                            return Err(format!("RPSI payload type: expected {pt}, decoded {pt2}"));
                        }
                        let a = Bits::new(bytes, *ign).ok_or("bad expected bit string")?;
                        match Bits::new(b2, *ign2) {
                            Some(b) if a.same(&b) => {}
                            Some(b) => {
                                return Err(format!(
                                    "RPSI bit string: expected {}, decoded {}",
                                    a.render(),
                                    b.render()
                                ))
                            }
                            None => {
                                return Err(format!(
                                    "RPSI bit string: decoder reports {} ignored bits on {} bytes",
                                    ign2,
                                    b2.len()
                                ))
                            }
                        }
                    }
                    Err(e) => return Err(format!("RPSI: parse_fci::<Rpsi>() fails: {e}")),
                }
            }
            Ok(())
        }
        (a, b) => Err(format!("expected a {} packet, parsed view is {}", a.variant(), b.variant())),
    }
}
