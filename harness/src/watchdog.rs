//! Hang detector for "always terminates" (C01, and every monitor that calls a
//! parser), decided without wall-clock verdicts.
//!
//! Every worker thread owns a slot: a sequence number bumped at the entry and
//! exit of every observed call (`drive::call`) and at the start of every
//! case, a "depth inside an observed call" counter, its Linux thread id, and
//! a reference to the case it is executing. A background thread polls the
//! slots and reads each thread's own CPU time from /proc/self/task/<tid>/stat.
//!
//! * A thread whose sequence number has not moved while it was **inside an
//!   observed call** and while **that thread** burned >= `CALL_CPU_LIMIT_S`
//!   seconds of CPU is a hang of the code under test (no legitimate single
//!   call costs more than milliseconds): reported with the exact case.
//! * A thread whose sequence number has not moved while it was **outside**
//!   any observed call for >= `HARNESS_CPU_LIMIT_S` CPU-seconds is a stall of
//!   the harness itself (generator, model, matcher): that is a harness error,
//!   the run ends INCONCLUSIVE, never as a violation.
//!
//! A loaded machine slows the wall clock, not the CPU-time account of a thread.

use crate::json::{hex, J};
use std::sync::atomic::{AtomicBool, AtomicU32, AtomicU64, Ordering};
use std::sync::{Arc, Mutex};

pub static HANG: AtomicBool = AtomicBool::new(false);
static ARMED: AtomicBool = AtomicBool::new(false);
static TRACK: AtomicBool = AtomicBool::new(false);

pub const CALL_CPU_LIMIT_S: f64 = 20.0;
pub const HARNESS_CPU_LIMIT_S: f64 = 240.0;

/// What a thread is working on. The pointers are only dereferenced by the
/// watchdog / death callback while holding the slot's mutex, and the owning
/// thread clears them (under the same mutex) before the referent can go away.
#[derive(Clone, Copy)]
enum CaseRef {
    Bytes { monitor: &'static str, ptr: *const u8, len: usize, a: u64, b: u64 },
    Cfg { monitor: &'static str, cfg: *const crate::cfg::Cfg, owned: bool, wrap: bool, probe: bool, reconf: bool },
    Text { monitor: &'static str, ptr: *const u8, len: usize },
}
unsafe impl Send for CaseRef {}

pub struct Slot {
    tid: AtomicU32,
    seq: AtomicU64,
    depth: AtomicU32,
    stack: Mutex<Vec<CaseRef>>,
}

static SLOTS: Mutex<Vec<Arc<Slot>>> = Mutex::new(Vec::new());

thread_local! {
    static MY: Arc<Slot> = {
        let s = Arc::new(Slot { tid: AtomicU32::new(my_tid()), seq: AtomicU64::new(0), depth: AtomicU32::new(0), stack: Mutex::new(Vec::new()) });
        SLOTS.lock().unwrap().push(s.clone());
        s
    };
}

fn my_tid() -> u32 {
    if cfg!(miri) {
        return 0;
    }
    std::fs::read_link("/proc/thread-self")
        .ok()
        .and_then(|p| p.file_name().and_then(|f| f.to_str()).and_then(|s| s.parse().ok()))
        .unwrap_or(0)
}

/// Entry of an observed call (see `drive::call`).
#[inline]
pub fn call_enter() {
    MY.with(|s| {
        s.depth.fetch_add(1, Ordering::Relaxed);
        s.seq.fetch_add(1, Ordering::Relaxed);
    });
}
/// Exit of an observed call.
#[inline]
pub fn call_exit() {
    MY.with(|s| {
        s.depth.fetch_sub(1, Ordering::Relaxed);
        s.seq.fetch_add(1, Ordering::Relaxed);
    });
}

/// Guard for "this thread is executing this case"; dropping it removes the note.
pub struct CaseGuard(bool);
impl Drop for CaseGuard {
    fn drop(&mut self) {
        if self.0 {
            MY.with(|s| {
                s.stack.lock().unwrap().pop();
                s.seq.fetch_add(1, Ordering::Relaxed);
            });
        }
    }
}

#[inline]
fn active() -> bool {
    cfg!(miri) || ARMED.load(Ordering::Relaxed) || TRACK.load(Ordering::Relaxed)
}

fn push(c: CaseRef) -> CaseGuard {
    // under the interpreter every case is announced before it runs, so that a Miri report (which ends the
    // process) can be tied to the exact input: the runner takes the last CASE line before the error
    if cfg!(miri) {
        eprintln!("CASE {}", render(&c).to_string());
    }
    MY.with(|s| {
        s.stack.lock().unwrap().push(c);
        s.seq.fetch_add(1, Ordering::Relaxed);
    });
    CaseGuard(true)
}

/// Note a byte-string case (`a`, `b`: extra integers some monitors need for a replay, e.g. pad / pt / min).
#[inline]
pub fn case_bytes(monitor: &'static str, b: &[u8]) -> CaseGuard {
    case_bytes2(monitor, b, 0, 0)
}
#[inline]
pub fn case_bytes2(monitor: &'static str, b: &[u8], a: u64, bb: u64) -> CaseGuard {
    if !active() {
        return CaseGuard(false);
    }
    push(CaseRef::Bytes { monitor, ptr: b.as_ptr(), len: b.len(), a, b: bb })
}
/// Note a configuration case.
#[inline]
pub fn case_cfg(monitor: &'static str, cfg: &crate::cfg::Cfg, how: crate::drive::How) -> CaseGuard {
    if !active() {
        return CaseGuard(false);
    }
    push(CaseRef::Cfg { monitor, cfg: cfg as *const _, owned: how.owned, wrap: how.wrap, probe: how.probe, reconf: how.reconf })
}
/// Note a case described by a string that outlives the guard (helper tuples).
#[inline]
pub fn case_text(monitor: &'static str, s: &str) -> CaseGuard {
    if !active() {
        return CaseGuard(false);
    }
    push(CaseRef::Text { monitor, ptr: s.as_ptr(), len: s.len() })
}

fn render(c: &CaseRef) -> J {
    // SAFETY: called with the slot mutex held; the owner cannot pop (and so cannot free the referent) meanwhile.
    unsafe {
        match *c {
            CaseRef::Bytes { monitor, ptr, len, a, b } => {
                let s = std::slice::from_raw_parts(ptr, len);
                let m = match monitor {
                    "c01" | "c08" | "c09-bytes" | "c10" | "c11" | "c12" | "c13" | "c15-direct" | "c18" | "c19-bytes" => monitor,
                    other => other,
                };
                let mut j = J::obj().set("kind", "bytes").set("monitor", m).set("len", len).set("hex", hex(s));
                if monitor == "c13" {
                    j = j.set("pad", a);
                }
                if monitor == "c19-bytes" {
                    j = j.set("pt", a).set("min", b);
                }
                j
            }
            CaseRef::Cfg { monitor, cfg, owned, wrap, probe, reconf } => {
                J::obj().set("kind", "cfg").set("monitor", monitor).set("owned", owned).set("wrap", wrap).set("probe", probe).set("reconf", reconf).set("cfg", (*cfg).to_json())
            }
            CaseRef::Text { monitor, ptr, len } => {
                let s = std::slice::from_raw_parts(ptr, len);
                J::obj().set("kind", "text").set("monitor", monitor).set("text", String::from_utf8_lossy(s).to_string())
            }
        }
    }
}

/// The innermost case of every thread that is currently executing one.
pub fn current_cases() -> Vec<J> {
    let slots = match SLOTS.try_lock() {
        Ok(g) => g.clone(),
        Err(_) => return vec![],
    };
    let mut v = vec![];
    for s in slots {
        if let Ok(g) = s.stack.try_lock() {
            if let Some(c) = g.last() {
                v.push(render(c).set("in_observed_call", s.depth.load(Ordering::Relaxed) > 0));
            }
        }
    }
    v
}

/// Keep the per-thread "current case" up to date even when the watchdog is not armed
/// (sanitizer tiers: the death callback dumps it, so that a report can be tied to an input).
pub fn track_cases(on: bool) {
    TRACK.store(on, Ordering::SeqCst);
    if on {
        install_death_callback();
    }
}
pub fn tracking() -> bool {
    TRACK.load(Ordering::Relaxed)
}

#[cfg(rtcpmon_asan)]
extern "C" {
    fn __sanitizer_set_death_callback(cb: extern "C" fn());
}
#[cfg(rtcpmon_asan)]
extern "C" fn on_death() {
    dump_cases();
}
fn install_death_callback() {
    #[cfg(rtcpmon_asan)]
    unsafe {
        __sanitizer_set_death_callback(on_death);
    }
}

/// Write the cases currently being executed (one per thread) to $RTCPMON_CASE_DUMP.
pub fn dump_cases() {
    if let Ok(path) = std::env::var("RTCPMON_CASE_DUMP") {
        let j = J::obj().set("kind", "cases-at-death").set("cases", J::Arr(current_cases()));
        let _ = std::fs::write(path, j.to_pretty());
    }
}

fn thread_cpu_seconds(tid: u32) -> Option<f64> {
    let s = std::fs::read_to_string(format!("/proc/self/task/{tid}/stat")).ok()?;
    let rest = &s[s.rfind(')')? + 2..];
    let f: Vec<&str> = rest.split_whitespace().collect();
    // fields after comm: state(0) ... utime is field 14 overall => index 11 here, stime 12
    let ut: f64 = f.get(11)?.parse().ok()?;
    let st: f64 = f.get(12)?.parse().ok()?;
    Some((ut + st) / 100.0)
}

pub enum Stall {
    /// a thread is stuck inside an observed call: the code under test does not terminate
    InCall(J),
    /// a thread is stuck outside any observed call: harness error
    Harness(J),
    /// the process is being aborted (SIGABRT: stack exhaustion through unbounded recursion, allocation failure,
    /// abort()) by a thread that is inside an observed call: the call "does not return normally"
    AbortInCall(J),
    /// the same outside any observed call: harness error
    AbortHarness(J),
}

// ---- abort trap -------------------------------------------------------------------------------------------
// `catch_unwind` sees panics only. Unbounded recursion ends in the runtime's stack-overflow handler, which
// calls abort(); so does an allocation failure. The SIGABRT handler below does the minimum that is safe on the
// faulting thread's (possibly alternate, small) stack: it publishes the thread id and parks. The watchdog thread,
// on its own stack, renders that thread's current case and ends the process through `on_stall`.
static FATAL_TID: AtomicU32 = AtomicU32::new(0);

#[cfg(all(target_os = "linux", not(miri)))]
mod sig {
    use std::sync::atomic::Ordering;
    extern "C" {
        fn signal(signum: i32, handler: usize) -> usize;
        fn syscall(num: i64, ...) -> i64;
        fn usleep(usec: u32) -> i32;
        fn _exit(code: i32) -> !;
    }
    const SIGABRT: i32 = 6;
    #[cfg(target_arch = "x86_64")]
    const SYS_GETTID: i64 = 186;
    #[cfg(target_arch = "aarch64")]
    const SYS_GETTID: i64 = 178;
    extern "C" fn on_abort(_sig: i32) {
        unsafe {
            let tid = syscall(SYS_GETTID) as u32;
            // first faulting thread wins; everybody who gets here parks
            let _ = super::FATAL_TID.compare_exchange(0, tid.max(1), Ordering::SeqCst, Ordering::SeqCst);
            for _ in 0..600 {
                usleep(100_000);
            }
            // nobody came: die the way we would have (the runner then reports the tier as inconclusive)
            _exit(134);
        }
    }
    pub fn install() {
        unsafe {
            signal(SIGABRT, on_abort as usize);
        }
    }
}
#[cfg(not(all(target_os = "linux", not(miri))))]
mod sig {
    pub fn install() {}
}

/// Start the watchdog. `on_stall` must not return (it ends the process).
pub fn arm(on_stall: impl Fn(Stall) + Send + 'static) {
    if cfg!(miri) || ARMED.swap(true, Ordering::SeqCst) {
        return;
    }
    sig::install();
    std::thread::spawn(move || {
        // per slot: (last seq seen, thread CPU when it last moved)
        let mut seen: Vec<(u64, f64)> = vec![];
        let mut tick = 0u32;
        loop {
            std::thread::sleep(std::time::Duration::from_millis(100));
            let fatal = FATAL_TID.load(Ordering::SeqCst);
            if fatal != 0 {
                // a thread is parked in the SIGABRT handler: which case was it executing, inside an observed call?
                let slots: Vec<Arc<Slot>> = match SLOTS.try_lock() {
                    Ok(g) => g.clone(),
                    Err(_) => vec![],
                };
                let mut found = None;
                for s in &slots {
                    if s.tid.load(Ordering::Relaxed) == fatal {
                        let case = s.stack.try_lock().ok().and_then(|g| g.last().map(render));
                        found = Some((case, s.depth.load(Ordering::Relaxed) > 0));
                    }
                }
                HANG.store(true, Ordering::SeqCst);
                match found {
                    Some((Some(case), true)) => on_stall(Stall::AbortInCall(case)),
                    Some((case, _)) => on_stall(Stall::AbortHarness(case.unwrap_or_else(|| J::obj().set("kind", "none")))),
                    None => on_stall(Stall::AbortHarness(J::obj().set("kind", "none").set("note", "aborting thread is not a worker"))),
                }
                return;
            }
            tick += 1;
            if tick % 5 != 0 {
                continue;
            }
            let slots: Vec<Arc<Slot>> = SLOTS.lock().map(|g| g.clone()).unwrap_or_default();
            for (i, s) in slots.iter().enumerate() {
                let tid = s.tid.load(Ordering::Relaxed);
                if tid == 0 {
                    continue;
                }
                let Some(cpu) = thread_cpu_seconds(tid) else { continue };
                let seq = s.seq.load(Ordering::Relaxed);
                if i >= seen.len() {
                    seen.resize(i + 1, (u64::MAX, 0.0));
                }
                if seen[i].0 != seq {
                    seen[i] = (seq, cpu);
                    continue;
                }
                let burned = cpu - seen[i].1;
                let in_call = s.depth.load(Ordering::Relaxed) > 0;
                let limit = if in_call { CALL_CPU_LIMIT_S } else { HARNESS_CPU_LIMIT_S };
                if burned < limit {
                    continue;
                }
                // stuck: render the case under the slot's mutex, confirm nothing moved meanwhile
                let case = {
                    let g = s.stack.lock().unwrap();
                    g.last().map(render)
                };
                if s.seq.load(Ordering::Relaxed) != seq {
                    continue;
                }
                let case = case.unwrap_or_else(|| J::obj().set("kind", "none")).set("cpu_seconds_in_this_state", burned);
                HANG.store(true, Ordering::SeqCst);
                on_stall(if in_call { Stall::InCall(case) } else { Stall::Harness(case) });
                return;
            }
        }
    });
}
