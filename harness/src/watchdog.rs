//! Hang detector for C01's "always terminates", decided without wall-clock
//! verdicts: a background thread watches a per-process operation counter; a
//! hang is declared only if the counter has not moved **and** the process has
//! burned >= CPU_LIMIT_S (30) seconds of CPU time since the last movement
//! (no legitimate single call costs more than microseconds). A loaded
//! machine slows the wall clock, not the CPU-time account of this process.

use std::sync::atomic::{AtomicBool, AtomicU64, Ordering};

static OPS: AtomicU64 = AtomicU64::new(0);
static ARMED: AtomicBool = AtomicBool::new(false);
pub static HANG: AtomicBool = AtomicBool::new(false);
static CURRENT: std::sync::Mutex<Vec<(std::thread::ThreadId, String)>> = std::sync::Mutex::new(Vec::new());

const CPU_LIMIT_S: f64 = 30.0;

thread_local! {
    static LOCAL: std::cell::Cell<u32> = const { std::cell::Cell::new(0) };
}

/// Called after every observed call. Flushed to the shared counter every 256
/// ticks (and on the first), so that 16 threads do not fight over one cache line.
#[inline]
pub fn tick() {
    LOCAL.with(|c| {
        let v = c.get().wrapping_add(1);
        c.set(v);
        if v & 0xff == 1 {
            OPS.fetch_add(1, Ordering::Relaxed);
        }
    });
}

static TRACK: AtomicBool = AtomicBool::new(false);

/// Keep the per-thread "current case" up to date for every monitor (sanitizer tiers:
/// the death callback dumps it, so that a report can be tied to an input).
pub fn track_cases(on: bool) {
    TRACK.store(on, Ordering::SeqCst);
    if on {
        install_death_callback();
    }
}
pub fn tracking() -> bool {
    TRACK.load(Ordering::Relaxed)
}

#[cfg(rtcpmon_asan)]
extern "C" {
    fn __sanitizer_set_death_callback(cb: extern "C" fn());
}
#[cfg(rtcpmon_asan)]
extern "C" fn on_death() {
    dump_cases();
}
fn install_death_callback() {
    #[cfg(rtcpmon_asan)]
    unsafe {
        __sanitizer_set_death_callback(on_death);
    }
}

/// Write the cases currently being executed (one per thread) to $RTCPMON_CASE_DUMP.
pub fn dump_cases() {
    if let Ok(path) = std::env::var("RTCPMON_CASE_DUMP") {
        if let Ok(g) = CURRENT.try_lock() {
            let body: Vec<String> = g.iter().map(|e| format!("{:?}", e.1)).collect();
            let _ = std::fs::write(path, format!("{{\"kind\": \"cases-at-death\", \"cases\": [{}]}}\n", body.join(", ")));
        }
    }
}

/// Per-thread note of the case being executed (used in the hang report and the sanitizer dump).
pub fn note_case(desc: impl FnOnce() -> String) {
    if !ARMED.load(Ordering::Relaxed) && !tracking() {
        return;
    }
    let id = std::thread::current().id();
    let mut g = CURRENT.lock().unwrap();
    let d = desc();
    if let Some(e) = g.iter_mut().find(|e| e.0 == id) {
        e.1 = d;
    } else {
        g.push((id, d));
    }
}

fn cpu_seconds() -> Option<f64> {
    let s = std::fs::read_to_string("/proc/self/stat").ok()?;
    let rest = &s[s.rfind(')')? + 2..];
    let f: Vec<&str> = rest.split_whitespace().collect();
    // fields after comm: state(0) ... utime is field 14 overall => index 11 here, stime 12
    let ut: f64 = f.get(11)?.parse().ok()?;
    let st: f64 = f.get(12)?.parse().ok()?;
    Some((ut + st) / 100.0)
}

/// Start the watchdog.
pub fn arm(threads: usize, on_hang: impl Fn(Vec<String>) + Send + 'static) {
    if cfg!(miri) || ARMED.swap(true, Ordering::SeqCst) {
        return;
    }
    std::thread::spawn(move || {
        let mut last_ops = OPS.load(Ordering::Relaxed);
        let mut cpu_at_last_move = cpu_seconds().unwrap_or(0.0);
        loop {
            std::thread::sleep(std::time::Duration::from_millis(500));
            let ops = OPS.load(Ordering::Relaxed);
            let cpu = match cpu_seconds() {
                Some(c) => c,
                None => return,
            };
            if ops != last_ops {
                last_ops = ops;
                cpu_at_last_move = cpu;
                continue;
            }
            // No observed call completed anywhere in the process. Only a spinning
            // thread accumulates CPU; an idle process (all workers done) does not.
            let _ = threads;
            if cpu - cpu_at_last_move >= CPU_LIMIT_S {
                HANG.store(true, Ordering::SeqCst);
                let cases = CURRENT.lock().map(|g| g.iter().map(|e| e.1.clone()).collect()).unwrap_or_default();
                on_hang(cases);
                return;
            }
        }
    });
}
