//! Observation of parsed values through the public accessors only.
//! None of these functions catches unwinds: callers wrap them in `drive::call`.

use rtcp_types::prelude::*;
use rtcp_types::*;

pub const STEP_BOUND_MSG: &str = "STEP-BOUND exceeded";

/// Drain an iterator, but never beyond `bound` steps: C01 demands a number of
/// steps bounded by the input length. Exceeding it is raised as a panic with
/// a recognisable message (inside `call`, so it is attributed to the crate).
///
/// After the iterator has reported exhaustion it is polled three more times: "all call
/// sequences" includes `next()` after the end, which must return normally as well. Items a
/// non-fused iterator yields then are kept (and count towards the bound).
pub fn drain<I: Iterator>(mut it: I, bound: usize) -> Vec<I::Item> {
    let mut v = Vec::new();
    let mut ends = 0;
    while ends < 4 {
        match it.next() {
            Some(x) => {
                if v.len() >= bound {
                    panic!("{STEP_BOUND_MSG}: iterator yielded more than {bound} items");
                }
                v.push(x);
            }
            None => ends += 1,
        }
    }
    v
}

pub const ITER_INCONSISTENT_MSG: &str = "ITERATOR-INCONSISTENT";

/// Drain through `next()` and hold the provided `Iterator` methods an implementation may
/// override (`count`, `last`) to the same answer; `mk` makes a fresh iterator each time.
pub fn drain_checked<I: Iterator>(mk: impl Fn() -> I, bound: usize) -> Vec<I::Item>
where
    I::Item: std::fmt::Debug,
{
    drain_methods(mk, bound, ASSERT_ITER.with(|c| c.get()))
}

thread_local! {
    /// whether `drain_checked` compares the provided Iterator methods with next() (every monitor but C01,
    /// which only asks that the calls return)
    static ASSERT_ITER: std::cell::Cell<bool> = const { std::cell::Cell::new(true) };
}
/// Guard: while it lives, iterator-method disagreements are exercised but not raised on this thread.
pub struct NoIterAssert(bool);
pub fn no_iter_assert() -> NoIterAssert {
    NoIterAssert(ASSERT_ITER.with(|c| c.replace(false)))
}
impl Drop for NoIterAssert {
    fn drop(&mut self) {
        ASSERT_ITER.with(|c| c.set(self.0));
    }
}

/// The same calls without the comparison (C01 only asks that they return).
pub fn drain_exercised<I: Iterator>(mk: impl Fn() -> I, bound: usize) -> Vec<I::Item>
where
    I::Item: std::fmt::Debug,
{
    drain_methods(mk, bound, false)
}

fn drain_methods<I: Iterator>(mk: impl Fn() -> I, bound: usize, assert: bool) -> Vec<I::Item>
where
    I::Item: std::fmt::Debug,
{
    let v = drain(mk(), bound);
    // positional access at and beyond the end (what skip(k) / step_by(s) with k, s larger than what is left turn into):
    // the calls return; where answers are compared, they are "nothing", and the iterator stays finished
    {
        let n = v.len();
        for k in [n, n + 1, n + 7] {
            let mut it = mk();
            let got = it.nth(k);
            let after = it.next();
            if assert && (got.is_some() || after.is_some()) {
                panic!("{ITER_INCONSISTENT_MSG}: next() yields {n} items but nth({k}) on a fresh iterator is {got:?} (then {after:?})");
            }
        }
        let beyond = drain(mk().skip(n + 1), bound).len();
        let strided = drain(mk().step_by(n + 2), bound).len();
        if assert && (beyond != 0 || strided != n.min(1)) {
            panic!("{ITER_INCONSISTENT_MSG}: next() yields {n} items but skip({}) yields {beyond} and step_by({}) yields {strided}", n + 1, n + 2);
        }
        if n >= 1 {
            // from a partly consumed iterator
            let mut it = mk();
            let _ = it.next();
            let got = it.nth(n - 1);
            if assert && got.is_some() {
                panic!("{ITER_INCONSISTENT_MSG}: next() yields {n} items but after one of them nth({}) is {got:?}", n - 1);
            }
            let _ = it.next();
        }
    }
    if !assert {
        let _ = mk().take(bound).count();
        let _ = mk().take(bound).last();
        let _ = mk().size_hint();
        let mut it = mk();
        let _ = it.next();
        let _ = it.nth(1);
        let _ = drain(it, bound);
        return v;
    }
    let n = mk().count();
    if n != v.len() {
        panic!("{ITER_INCONSISTENT_MSG}: count() == {n} but next() yields {} items", v.len());
    }
    let last = mk().last().map(|x| format!("{x:?}"));
    if last != v.last().map(|x| format!("{x:?}")) {
        panic!("{ITER_INCONSISTENT_MSG}: last() == {last:?} but the last item next() yields is {:?}", v.last());
    }
    let _ = mk().size_hint();
    // positional access on a fresh iterator, and the adaptors std builds on nth(): skip() and step_by()
    if !v.is_empty() {
        let render = |xs: &[I::Item]| -> Vec<String> { xs.iter().map(|x| format!("{x:?}")).collect() };
        let mut it = mk();
        let first = it.nth(0).map(|x| format!("{x:?}"));
        if first != Some(format!("{:?}", v[0])) {
            panic!("{ITER_INCONSISTENT_MSG}: nth(0) == {first:?} but next() yields {:?}", v[0]);
        }
        let rest = render(&drain(it, bound));
        if rest != render(&v[1..]) {
            panic!("{ITER_INCONSISTENT_MSG}: after nth(0) the iterator continues with {} items, next() alone yields {} more", rest.len(), v.len() - 1);
        }
        let skipped = render(&drain(mk().skip(1), bound));
        if skipped != render(&v[1..]) {
            panic!("{ITER_INCONSISTENT_MSG}: skip(1) yields {} items {:?}.., next() yields {} after the first", skipped.len(), skipped.first(), v.len() - 1);
        }
        let stepped = render(&drain(mk().step_by(2), bound));
        let want: Vec<String> = v.iter().step_by(2).map(|x| format!("{x:?}")).collect();
        if stepped != want {
            panic!("{ITER_INCONSISTENT_MSG}: step_by(2) yields {} items, every other item of next() makes {}", stepped.len(), want.len());
        }
    }
    // nth() on a partly consumed iterator (also what skip() and step_by() are built on): one probe per call,
    // its position derived from the length so that different positions are hit across the workload
    if v.len() >= 3 {
        let j = 1 + v.len() % 2;
        let k = 1 + v.len() % 3;
        if j + k < v.len() {
            let mut it = mk();
            for _ in 0..j {
                let _ = it.next();
            }
            let got = it.nth(k).map(|x| format!("{x:?}"));
            let want = Some(format!("{:?}", v[j + k]));
            if got != want {
                panic!("{ITER_INCONSISTENT_MSG}: after {j} items nth({k}) == {got:?} but next() would yield {want:?}");
            }
            let rest: Vec<String> = drain(it, bound).iter().map(|x| format!("{x:?}")).collect();
            let want_rest: Vec<String> = v[j + k + 1..].iter().map(|x| format!("{x:?}")).collect();
            if rest != want_rest {
                panic!("{ITER_INCONSISTENT_MSG}: after nth() the iterator continues with {} items, next() alone yields {} more", rest.len(), want_rest.len());
            }
        }
    } else {
        let _ = mk().nth(1);
    }
    v
}

pub fn bound_for(len: usize) -> usize {
    8 * len + 8
}

#[derive(Clone, Debug, PartialEq, Eq)]
pub struct Hdr {
    pub version: u8,
    pub type_: u8,
    pub subtype: u8,
    pub count: u8,
    pub length: usize,
}

pub fn hdr<'a, P: RtcpPacketParser<'a>>(p: &P) -> Hdr {
    Hdr { version: p.version(), type_: p.type_(), subtype: p.subtype(), count: p.count(), length: p.length() }
}

#[derive(Clone, Debug, PartialEq, Eq)]
pub struct RbObs {
    pub ssrc: u32,
    pub fraction: u8,
    pub cumulative: u32,
    pub ext_seq: u32,
    pub jitter: u32,
    pub lsr: u32,
    pub dlsr: u32,
}

pub fn rb(b: &ReportBlock) -> RbObs {
    RbObs {
        ssrc: b.ssrc(),
        fraction: b.fraction_lost(),
        cumulative: b.cumulative_lost(),
        ext_seq: b.extended_sequence_number(),
        jitter: b.interarrival_jitter(),
        lsr: b.last_sender_report_timestamp(),
        dlsr: b.delay_since_last_sender_report_timestamp(),
    }
}

#[derive(Clone, Debug, PartialEq, Eq)]
pub struct ItemObs {
    pub type_: u8,
    pub length: usize,
    pub value: Vec<u8>,
    pub prefix: Option<Vec<u8>>,
    pub value_string_ok: bool,
}

#[derive(Clone, Debug, PartialEq, Eq)]
pub struct ChunkObs {
    pub ssrc: u32,
    pub length: usize,
    pub items: Vec<ItemObs>,
}

#[derive(Clone, Debug, PartialEq, Eq)]
pub struct FciObs {
    pub nack: Result<Vec<u16>, String>,
    pub pli: Result<(), String>,
    pub sli: Result<Vec<(u16, u16, u8)>, String>,
    /// (payload type, bytes, ignored trailing bits)
    pub rpsi: Result<(u8, Vec<u8>, usize), String>,
    pub fir: Result<Vec<(u32, u8)>, String>,
}

#[derive(Clone, Debug, PartialEq, Eq)]
pub enum Content {
    Sr { ssrc: u32, ntp: u64, rtp: u32, pc: u32, oc: u32, n_reports: u8, blocks: Vec<RbObs> },
    Rr { ssrc: u32, n_reports: u8, blocks: Vec<RbObs> },
    Sdes { chunks: Vec<ChunkObs> },
    Bye { ssrcs: Vec<u32>, reason: Option<Vec<u8>>, reason_string: Option<Result<String, ()>> },
    App { ssrc: u32, subtype: u8, name: [u8; 4], name_string: Result<String, ()>, data: Vec<u8> },
    Fb { transport: bool, fmt: u8, sender: u32, media: u32, fci: FciObs },
    Unknown { data: Vec<u8> },
}

impl Content {
    pub fn variant(&self) -> &'static str {
        match self {
            Content::Sr { .. } => "Sr",
            Content::Rr { .. } => "Rr",
            Content::Sdes { .. } => "Sdes",
            Content::Bye { .. } => "Bye",
            Content::App { .. } => "App",
            Content::Fb { transport: true, .. } => "TransportFeedback",
            Content::Fb { transport: false, .. } => "PayloadFeedback",
            Content::Unknown { .. } => "Unknown",
        }
    }
}

pub fn sr(p: &SenderReport, bound: usize) -> Content {
    Content::Sr {
        ssrc: p.ssrc(),
        ntp: p.ntp_timestamp(),
        rtp: p.rtp_timestamp(),
        pc: p.packet_count(),
        oc: p.octet_count(),
        n_reports: p.n_reports(),
        blocks: drain_checked(|| p.report_blocks(), bound).iter().map(rb).collect(),
    }
}

pub fn rr(p: &ReceiverReport, bound: usize) -> Content {
    Content::Rr {
        ssrc: p.ssrc(),
        n_reports: p.n_reports(),
        blocks: drain_checked(|| p.report_blocks(), bound).iter().map(rb).collect(),
    }
}

pub fn item(i: &SdesItem) -> ItemObs {
    let t = i.type_();
    ItemObs {
        type_: t,
        length: i.length(),
        value: i.value().to_vec(),
        // documented panic precondition: only PRIV items may be asked for their prefix
        prefix: if t == SdesItem::PRIV {
            let l = i.priv_prefix_len();
            let p = i.priv_prefix().to_vec();
            assert_eq!(l as usize, p.len(), "priv_prefix_len() disagrees with priv_prefix().len()");
            Some(p)
        } else {
            None
        },
        value_string_ok: i.get_value_string().is_ok(),
    }
}

pub fn sdes(p: &Sdes, bound: usize) -> Content {
    Content::Sdes {
        chunks: drain_checked(|| p.chunks(), bound)
            .into_iter()
            .map(|c| ChunkObs {
                ssrc: c.ssrc(),
                length: c.length(),
                items: drain_checked(|| c.items(), bound).into_iter().map(item).collect(),
            })
            .collect(),
    }
}

pub fn bye(p: &Bye, bound: usize) -> Content {
    Content::Bye {
        ssrcs: drain_checked(|| p.ssrcs(), bound),
        reason: p.reason().map(|r| r.to_vec()),
        reason_string: p.get_reason_string().map(|r| r.map_err(|_| ())),
    }
}

pub fn app(p: &App) -> Content {
    Content::App {
        ssrc: p.ssrc(),
        subtype: p.subtype(),
        name: p.name(),
        name_string: p.get_name_string().map_err(|_| ()),
        data: p.data().to_vec(),
    }
}

/// Parse the three integers out of a `MacroBlockEntry`'s `Debug` rendering
/// (its fields are private and the type is not exported): by field name when
/// `start` / `count` / `picture_id` are present, else by position.
pub fn sli_entry_from_debug(s: &str) -> Option<(u16, u16, u8)> {
    fn after(s: &str, key: &str) -> Option<u64> {
        let i = s.find(key)? + key.len();
        let rest = s[i..].trim_start_matches(|c: char| c == ':' || c == ' ' || c == '=');
        let end = rest.find(|c: char| !c.is_ascii_digit()).unwrap_or(rest.len());
        rest[..end].parse().ok()
    }
    if let (Some(a), Some(b), Some(c)) = (after(s, "start"), after(s, "count"), after(s, "picture_id")) {
        return Some((a as u16, b as u16, c as u8));
    }
    let nums: Vec<u64> = s
        .split(|c: char| !c.is_ascii_digit())
        .filter(|t| !t.is_empty())
        .filter_map(|t| t.parse().ok())
        .collect();
    if nums.len() == 3 {
        Some((nums[0] as u16, nums[1] as u16, nums[2] as u8))
    } else {
        None
    }
}

fn err_s(e: RtcpParseError) -> String {
    format!("{e:?}")
}

pub fn nack_entries(n: &Nack, bound: usize) -> Vec<u16> {
    drain_checked(|| n.entries(), bound)
}
pub fn fir_entries(f: &Fir, bound: usize) -> Vec<(u32, u8)> {
    drain_checked(|| f.entries(), bound).iter().map(|e| (e.ssrc(), e.sequence())).collect()
}
pub fn sli_entries(s: &Sli, bound: usize) -> Vec<(u16, u16, u8)> {
    drain_checked(|| s.lost_macroblocks(), bound)
        .iter()
        .map(|e| {
            let d = format!("{e:?}");
            sli_entry_from_debug(&d).unwrap_or_else(|| panic!("cannot read SLI entry from Debug rendering {d:?}"))
        })
        .collect()
}
pub fn rpsi_obs(r: &Rpsi) -> (u8, Vec<u8>, usize) {
    let (b, ign) = r.bit_string();
    (r.payload_type(), b.to_vec(), ign)
}

macro_rules! fci_obs {
    ($p:expr, $bound:expr) => {
        FciObs {
            nack: $p.parse_fci::<Nack>().map(|n| nack_entries(&n, $bound)).map_err(err_s),
            pli: $p.parse_fci::<Pli>().map(|_| ()).map_err(err_s),
            sli: $p.parse_fci::<Sli>().map(|s| sli_entries(&s, $bound)).map_err(err_s),
            rpsi: $p.parse_fci::<Rpsi>().map(|r| rpsi_obs(&r)).map_err(err_s),
            fir: $p.parse_fci::<Fir>().map(|f| fir_entries(&f, $bound)).map_err(err_s),
        }
    };
}

pub fn tfb(p: &TransportFeedback, bound: usize) -> Content {
    Content::Fb {
        transport: true,
        fmt: p.count(),
        sender: p.sender_ssrc(),
        media: p.media_ssrc(),
        fci: fci_obs!(p, bound),
    }
}
pub fn pfb(p: &PayloadFeedback, bound: usize) -> Content {
    Content::Fb {
        transport: false,
        fmt: p.count(),
        sender: p.sender_ssrc(),
        media: p.media_ssrc(),
        fci: fci_obs!(p, bound),
    }
}

pub fn packet(p: &Packet, bound: usize) -> Content {
    match p {
        Packet::App(x) => app(x),
        Packet::Bye(x) => bye(x, bound),
        Packet::Rr(x) => rr(x, bound),
        Packet::Sdes(x) => sdes(x, bound),
        Packet::Sr(x) => sr(x, bound),
        Packet::TransportFeedback(x) => tfb(x, bound),
        Packet::PayloadFeedback(x) => pfb(x, bound),
        Packet::Unknown(x) => Content::Unknown { data: x.data().to_vec() },
    }
}

pub fn packet_variant(p: &Packet) -> &'static str {
    match p {
        Packet::App(_) => "App",
        Packet::Bye(_) => "Bye",
        Packet::Rr(_) => "Rr",
        Packet::Sdes(_) => "Sdes",
        Packet::Sr(_) => "Sr",
        Packet::TransportFeedback(_) => "TransportFeedback",
        Packet::PayloadFeedback(_) => "PayloadFeedback",
        Packet::Unknown(_) => "Unknown",
    }
}

pub fn packet_padding(p: &Packet) -> Option<Option<u8>> {
    Some(match p {
        Packet::App(x) => x.padding(),
        Packet::Bye(x) => x.padding(),
        Packet::Rr(x) => x.padding(),
        Packet::Sdes(x) => x.padding(),
        Packet::Sr(x) => x.padding(),
        Packet::TransportFeedback(x) => x.padding(),
        Packet::PayloadFeedback(x) => x.padding(),
        Packet::Unknown(_) => return None,
    })
}

// ------------------------------------------------------------------------
// typed parse + full observation under `call`

#[derive(Clone, Copy, Debug, PartialEq, Eq, Hash)]
pub enum Ty {
    Sr,
    Rr,
    Sdes,
    Bye,
    App,
    Tfb,
    Pfb,
}

pub const ALL_TY: [Ty; 7] = [Ty::Sr, Ty::Rr, Ty::Sdes, Ty::Bye, Ty::App, Ty::Tfb, Ty::Pfb];

impl Ty {
    pub fn pt(self) -> u8 {
        match self {
            Ty::Sr => 200,
            Ty::Rr => 201,
            Ty::Sdes => 202,
            Ty::Bye => 203,
            Ty::App => 204,
            Ty::Tfb => 205,
            Ty::Pfb => 206,
        }
    }
    pub fn of_pt(pt: u8) -> Option<Ty> {
        ALL_TY.iter().copied().find(|t| t.pt() == pt)
    }
    pub fn name(self) -> &'static str {
        match self {
            Ty::Sr => "SenderReport",
            Ty::Rr => "ReceiverReport",
            Ty::Sdes => "Sdes",
            Ty::Bye => "Bye",
            Ty::App => "App",
            Ty::Tfb => "TransportFeedback",
            Ty::Pfb => "PayloadFeedback",
        }
    }
    pub fn min_len(self) -> usize {
        crate::model::dec::min_len_of(self.pt())
    }
    pub fn of_cfg(c: &crate::cfg::Cfg) -> Option<Ty> {
        use crate::cfg::{Cfg, FbKind};
        Some(match c {
            Cfg::Sr { .. } => Ty::Sr,
            Cfg::Rr { .. } => Ty::Rr,
            Cfg::Sdes { .. } => Ty::Sdes,
            Cfg::Bye { .. } => Ty::Bye,
            Cfg::App { .. } => Ty::App,
            Cfg::Fb { kind: FbKind::Transport, .. } => Ty::Tfb,
            Cfg::Fb { kind: FbKind::Payload, .. } => Ty::Pfb,
            _ => return None,
        })
    }
}

#[derive(Clone, Debug, PartialEq, Eq)]
pub struct Parsed {
    pub hdr: Hdr,
    pub padding: Option<u8>,
    pub content: Content,
}

/// Parse `b` with the typed parser `ty` and observe everything (no unwinding caught here).
pub fn parse_typed_raw(ty: Ty, b: &[u8]) -> Result<Parsed, RtcpParseError> {
    let bound = bound_for(b.len());
    Ok(match ty {
        Ty::Sr => {
            let p = SenderReport::parse(b)?;
            Parsed { hdr: hdr(&p), padding: p.padding(), content: sr(&p, bound) }
        }
        Ty::Rr => {
            let p = ReceiverReport::parse(b)?;
            Parsed { hdr: hdr(&p), padding: p.padding(), content: rr(&p, bound) }
        }
        Ty::Sdes => {
            let p = Sdes::parse(b)?;
            Parsed { hdr: hdr(&p), padding: p.padding(), content: sdes(&p, bound) }
        }
        Ty::Bye => {
            let p = Bye::parse(b)?;
            Parsed { hdr: hdr(&p), padding: p.padding(), content: bye(&p, bound) }
        }
        Ty::App => {
            let p = App::parse(b)?;
            Parsed { hdr: hdr(&p), padding: p.padding(), content: app(&p) }
        }
        Ty::Tfb => {
            let p = TransportFeedback::parse(b)?;
            Parsed { hdr: hdr(&p), padding: p.padding(), content: tfb(&p, bound) }
        }
        Ty::Pfb => {
            let p = PayloadFeedback::parse(b)?;
            Parsed { hdr: hdr(&p), padding: p.padding(), content: pfb(&p, bound) }
        }
    })
}

pub fn parse_typed(ty: Ty, b: &[u8]) -> Result<Result<Parsed, RtcpParseError>, crate::drive::Panicked> {
    crate::drive::call(|| parse_typed_raw(ty, b))
}

/// The same, but for feedback packets only the fixed header part is observed (no FCI decoding):
/// what C09 is about.
pub fn parse_typed_fixed_layout(ty: Ty, b: &[u8]) -> Result<Result<Parsed, RtcpParseError>, crate::drive::Panicked> {
    let none = || FciObs { nack: Err(String::new()), pli: Err(String::new()), sli: Err(String::new()), rpsi: Err(String::new()), fir: Err(String::new()) };
    crate::drive::call(|| match ty {
        Ty::Tfb => {
            let p = TransportFeedback::parse(b)?;
            Ok(Parsed { hdr: hdr(&p), padding: p.padding(), content: Content::Fb { transport: true, fmt: p.count(), sender: p.sender_ssrc(), media: p.media_ssrc(), fci: none() } })
        }
        Ty::Pfb => {
            let p = PayloadFeedback::parse(b)?;
            Ok(Parsed { hdr: hdr(&p), padding: p.padding(), content: Content::Fb { transport: false, fmt: p.count(), sender: p.sender_ssrc(), media: p.media_ssrc(), fci: none() } })
        }
        other => parse_typed_raw(other, b),
    })
}
