//! Minimal JSON value (print + parse). No external crates are available offline
//! for the harness, and replay files / evidence need a structured format.

use std::collections::BTreeMap;
use std::fmt::Write;

#[derive(Clone, Debug, PartialEq)]
pub enum J {
    Null,
    Bool(bool),
    Int(i128),
    Num(f64),
    Str(String),
    Arr(Vec<J>),
    Obj(BTreeMap<String, J>),
}

impl J {
    pub fn obj() -> J {
        J::Obj(BTreeMap::new())
    }
    pub fn set(mut self, k: &str, v: impl Into<J>) -> J {
        if let J::Obj(m) = &mut self {
            m.insert(k.to_string(), v.into());
        }
        self
    }
    pub fn put(&mut self, k: &str, v: impl Into<J>) {
        if let J::Obj(m) = self {
            m.insert(k.to_string(), v.into());
        }
    }
    pub fn get(&self, k: &str) -> Option<&J> {
        match self {
            J::Obj(m) => m.get(k),
            _ => None,
        }
    }
    pub fn str(&self) -> Option<&str> {
        match self {
            J::Str(s) => Some(s),
            _ => None,
        }
    }
    pub fn int(&self) -> Option<i128> {
        match self {
            J::Int(i) => Some(*i),
            J::Num(f) => Some(*f as i128),
            _ => None,
        }
    }
    pub fn boolean(&self) -> Option<bool> {
        match self {
            J::Bool(b) => Some(*b),
            _ => None,
        }
    }
    pub fn arr(&self) -> Option<&Vec<J>> {
        match self {
            J::Arr(a) => Some(a),
            _ => None,
        }
    }
    pub fn gs(&self, k: &str) -> Result<&str, String> {
        self.get(k).and_then(|v| v.str()).ok_or_else(|| format!("missing string field {k}"))
    }
    pub fn gi(&self, k: &str) -> Result<i128, String> {
        self.get(k).and_then(|v| v.int()).ok_or_else(|| format!("missing int field {k}"))
    }
    pub fn ga(&self, k: &str) -> Result<&Vec<J>, String> {
        self.get(k).and_then(|v| v.arr()).ok_or_else(|| format!("missing array field {k}"))
    }

    pub fn to_string(&self) -> String {
        let mut s = String::new();
        self.write(&mut s, 0, false);
        s
    }
    pub fn to_pretty(&self) -> String {
        let mut s = String::new();
        self.write(&mut s, 0, true);
        s.push('\n');
        s
    }

    fn write(&self, out: &mut String, ind: usize, pretty: bool) {
        match self {
            J::Null => out.push_str("null"),
            J::Bool(b) => out.push_str(if *b { "true" } else { "false" }),
            J::Int(i) => {
                let _ = write!(out, "{i}");
            }
            J::Num(f) => {
                if f.is_finite() {
                    let _ = write!(out, "{f:.3}");
                } else {
                    out.push_str("0")
                }
            }
            J::Str(s) => write_str(out, s),
            J::Arr(a) => {
                // arrays of scalars stay on one line even in pretty mode
                let scalar = a.iter().all(|x| !matches!(x, J::Arr(_) | J::Obj(_)));
                out.push('[');
                for (i, v) in a.iter().enumerate() {
                    if i > 0 {
                        out.push(',');
                    }
                    if pretty && !scalar {
                        out.push('\n');
                        out.push_str(&" ".repeat(ind + 1));
                    } else if i > 0 {
                        out.push(' ');
                    }
                    v.write(out, ind + 1, pretty);
                }
                if pretty && !scalar && !a.is_empty() {
                    out.push('\n');
                    out.push_str(&" ".repeat(ind));
                }
                out.push(']');
            }
            J::Obj(m) => {
                out.push('{');
                for (i, (k, v)) in m.iter().enumerate() {
                    if i > 0 {
                        out.push(',');
                    }
                    if pretty {
                        out.push('\n');
                        out.push_str(&" ".repeat(ind + 1));
                    } else if i > 0 {
                        out.push(' ');
                    }
                    write_str(out, k);
                    out.push_str(": ");
                    v.write(out, ind + 1, pretty);
                }
                if pretty && !m.is_empty() {
                    out.push('\n');
                    out.push_str(&" ".repeat(ind));
                }
                out.push('}');
            }
        }
    }

    pub fn parse(s: &str) -> Result<J, String> {
        let b = s.as_bytes();
        let mut p = 0usize;
        let v = parse_val(b, &mut p)?;
        skip_ws(b, &mut p);
        if p != b.len() {
            return Err(format!("trailing data at {p}"));
        }
        Ok(v)
    }
}

fn write_str(out: &mut String, s: &str) {
    out.push('"');
    for c in s.chars() {
        match c {
            '"' => out.push_str("\\\""),
            '\\' => out.push_str("\\\\"),
            '\n' => out.push_str("\\n"),
            '\r' => out.push_str("\\r"),
            '\t' => out.push_str("\\t"),
            c if (c as u32) < 0x20 => {
                let _ = write!(out, "\\u{:04x}", c as u32);
            }
            c => out.push(c),
        }
    }
    out.push('"');
}

fn skip_ws(b: &[u8], p: &mut usize) {
    while *p < b.len() && matches!(b[*p], b' ' | b'\n' | b'\r' | b'\t') {
        *p += 1;
    }
}

fn parse_val(b: &[u8], p: &mut usize) -> Result<J, String> {
    skip_ws(b, p);
    if *p >= b.len() {
        return Err("unexpected end".into());
    }
    match b[*p] {
        b'{' => {
            *p += 1;
            let mut m = BTreeMap::new();
            skip_ws(b, p);
            if *p < b.len() && b[*p] == b'}' {
                *p += 1;
                return Ok(J::Obj(m));
            }
            loop {
                skip_ws(b, p);
                let k = match parse_val(b, p)? {
                    J::Str(s) => s,
                    _ => return Err("object key must be string".into()),
                };
                skip_ws(b, p);
                if *p >= b.len() || b[*p] != b':' {
                    return Err(format!("expected : at {p}"));
                }
                *p += 1;
                let v = parse_val(b, p)?;
                m.insert(k, v);
                skip_ws(b, p);
                if *p < b.len() && b[*p] == b',' {
                    *p += 1;
                    continue;
                }
                if *p < b.len() && b[*p] == b'}' {
                    *p += 1;
                    return Ok(J::Obj(m));
                }
                return Err(format!("expected , or }} at {p}"));
            }
        }
        b'[' => {
            *p += 1;
            let mut a = vec![];
            skip_ws(b, p);
            if *p < b.len() && b[*p] == b']' {
                *p += 1;
                return Ok(J::Arr(a));
            }
            loop {
                a.push(parse_val(b, p)?);
                skip_ws(b, p);
                if *p < b.len() && b[*p] == b',' {
                    *p += 1;
                    continue;
                }
                if *p < b.len() && b[*p] == b']' {
                    *p += 1;
                    return Ok(J::Arr(a));
                }
                return Err(format!("expected , or ] at {p}"));
            }
        }
        b'"' => {
            *p += 1;
            let mut s = String::new();
            loop {
                if *p >= b.len() {
                    return Err("unterminated string".into());
                }
                let c = b[*p];
                *p += 1;
                match c {
                    b'"' => return Ok(J::Str(s)),
                    b'\\' => {
                        if *p >= b.len() {
                            return Err("bad escape".into());
                        }
                        let e = b[*p];
                        *p += 1;
                        match e {
                            b'n' => s.push('\n'),
                            b'r' => s.push('\r'),
                            b't' => s.push('\t'),
                            b'b' => s.push('\u{8}'),
                            b'f' => s.push('\u{c}'),
                            b'u' => {
                                if *p + 4 > b.len() {
                                    return Err("bad \\u".into());
                                }
                                let h = std::str::from_utf8(&b[*p..*p + 4]).map_err(|e| e.to_string())?;
                                let cp = u32::from_str_radix(h, 16).map_err(|e| e.to_string())?;
                                *p += 4;
                                s.push(char::from_u32(cp).unwrap_or('\u{fffd}'));
                            }
                            other => s.push(other as char),
                        }
                    }
                    _ => {
                        // re-assemble UTF-8 sequences
                        let start = *p - 1;
                        let mut end = *p;
                        while end < b.len() && (b[end] & 0xc0) == 0x80 {
                            end += 1;
                        }
                        s.push_str(std::str::from_utf8(&b[start..end]).map_err(|e| e.to_string())?);
                        *p = end;
                    }
                }
            }
        }
        b't' if b[*p..].starts_with(b"true") => {
            *p += 4;
            Ok(J::Bool(true))
        }
        b'f' if b[*p..].starts_with(b"false") => {
            *p += 5;
            Ok(J::Bool(false))
        }
        b'n' if b[*p..].starts_with(b"null") => {
            *p += 4;
            Ok(J::Null)
        }
        _ => {
            let start = *p;
            let mut float = false;
            while *p < b.len() && matches!(b[*p], b'0'..=b'9' | b'-' | b'+' | b'.' | b'e' | b'E') {
                if matches!(b[*p], b'.' | b'e' | b'E') {
                    float = true;
                }
                *p += 1;
            }
            let t = std::str::from_utf8(&b[start..*p]).map_err(|e| e.to_string())?;
            if t.is_empty() {
                return Err(format!("unexpected byte {} at {}", b[start], start));
            }
            if float {
                t.parse::<f64>().map(J::Num).map_err(|e| e.to_string())
            } else {
                t.parse::<i128>().map(J::Int).map_err(|e| e.to_string())
            }
        }
    }
}

impl From<&str> for J {
    fn from(s: &str) -> J {
        J::Str(s.to_string())
    }
}
impl From<String> for J {
    fn from(s: String) -> J {
        J::Str(s)
    }
}
impl From<bool> for J {
    fn from(b: bool) -> J {
        J::Bool(b)
    }
}
impl From<f64> for J {
    fn from(b: f64) -> J {
        J::Num(b)
    }
}
macro_rules! from_int {
    ($($t:ty),*) => {$(impl From<$t> for J { fn from(i: $t) -> J { J::Int(i as i128) } })*};
}
from_int!(u8, u16, u32, u64, usize, i32, i64, i128);
impl<T: Into<J>> From<Vec<T>> for J {
    fn from(v: Vec<T>) -> J {
        J::Arr(v.into_iter().map(Into::into).collect())
    }
}

/// At most `n` bytes of `s`, cut at a character boundary (monitors render what they observed, and what the code
/// under test returns may well contain multi-byte text: never slice a rendering at a fixed byte index).
pub fn trunc(s: &str, n: usize) -> &str {
    if s.len() <= n {
        return s;
    }
    let mut k = n;
    while k > 0 && !s.is_char_boundary(k) {
        k -= 1;
    }
    &s[..k]
}

pub fn hex(b: &[u8]) -> String {
    let mut s = String::with_capacity(b.len() * 2);
    for x in b {
        let _ = write!(s, "{x:02x}");
    }
    s
}

pub fn unhex(s: &str) -> Result<Vec<u8>, String> {
    let s = s.trim();
    if s.len() % 2 != 0 {
        return Err("odd hex length".into());
    }
    (0..s.len() / 2)
        .map(|i| u8::from_str_radix(&s[2 * i..2 * i + 2], 16).map_err(|e| e.to_string()))
        .collect()
}
