//! Abstract builder configurations. A `Cfg` says *what* is configured; *how*
//! it is turned into calls on the real builders (owned/borrowed variants,
//! enum wrapper, setter order) is decided by `drive::How` / the C20 histories.

use crate::json::{hex, unhex, J};

#[derive(Clone, Debug, PartialEq, Eq, Hash)]
pub struct Rb {
    pub ssrc: u32,
    pub fraction: u8,
    pub cumulative: u32,
    pub ext_seq: u32,
    pub jitter: u32,
    pub lsr: u32,
    pub dlsr: u32,
}

#[derive(Clone, Debug, PartialEq, Eq, Hash)]
pub struct Item {
    pub type_: u8,
    pub prefix: Vec<u8>,
    pub value: String,
}

#[derive(Clone, Debug, PartialEq, Eq, Hash)]
pub struct Chunk {
    pub ssrc: u32,
    pub items: Vec<Item>,
}

#[derive(Clone, Debug, PartialEq, Eq, Hash)]
pub enum Fci {
    /// sequence numbers in the order they are added (duplicates allowed: adding is idempotent)
    Nack(Vec<u16>),
    Pli,
    /// (first, number, picture id)
    Sli(Vec<(u16, u16, u8)>),
    Rpsi { pt: u8, bits: Vec<u8>, overrun: u8 },
    /// (ssrc, sequence) in the order they are added (a repeated ssrc keeps the last sequence)
    Fir(Vec<(u32, u8)>),
}

#[derive(Clone, Copy, Debug, PartialEq, Eq, Hash)]
pub enum FbKind {
    Transport,
    Payload,
}

#[derive(Clone, Debug, PartialEq, Eq, Hash)]
pub enum Cfg {
    Sr { ssrc: u32, ntp: u64, rtp: u32, pc: u32, oc: u32, blocks: Vec<Rb>, padding: u8 },
    Rr { ssrc: u32, blocks: Vec<Rb>, padding: u8 },
    Sdes { chunks: Vec<Chunk>, padding: u8 },
    Bye { sources: Vec<u32>, reason: String, padding: u8 },
    App { ssrc: u32, subtype: u8, name: String, data: Vec<u8>, padding: u8 },
    Fb { kind: FbKind, sender: u32, media: u32, fci: Fci, padding: u8 },
    Unknown { pt: u8, count: u8, data: Vec<u8>, padding: u8 },
    /// third-party packet type `Custom<PT,MIN>` defined in `custom.rs` (header, ssrc-less raw body)
    Custom { pt: u8, min: usize, count: u8, body: Vec<u8>, padding: u8 },
    Compound(Vec<Cfg>),
}

impl Fci {
    pub fn kind_name(&self) -> &'static str {
        match self {
            Fci::Nack(_) => "nack",
            Fci::Pli => "pli",
            Fci::Sli(_) => "sli",
            Fci::Rpsi { .. } => "rpsi",
            Fci::Fir(_) => "fir",
        }
    }
    /// the feedback kind this FCI belongs in
    pub fn home(&self) -> FbKind {
        match self {
            Fci::Nack(_) => FbKind::Transport,
            _ => FbKind::Payload,
        }
    }
    pub fn format(&self) -> u8 {
        match self {
            Fci::Nack(_) => 1,
            Fci::Pli => 1,
            Fci::Sli(_) => 2,
            Fci::Rpsi { .. } => 3,
            Fci::Fir(_) => 4,
        }
    }
    /// final FIR map in first-insertion order, last sequence wins
    pub fn fir_final(list: &[(u32, u8)]) -> Vec<(u32, u8)> {
        let mut out: Vec<(u32, u8)> = vec![];
        for &(s, q) in list {
            if let Some(e) = out.iter_mut().find(|e| e.0 == s) {
                e.1 = q;
            } else {
                out.push((s, q));
            }
        }
        out
    }
    pub fn nack_final(list: &[u16]) -> Vec<u16> {
        let mut v = list.to_vec();
        v.sort_unstable();
        v.dedup();
        v
    }
}

impl Cfg {
    pub fn kind_name(&self) -> &'static str {
        match self {
            Cfg::Sr { .. } => "sr",
            Cfg::Rr { .. } => "rr",
            Cfg::Sdes { .. } => "sdes",
            Cfg::Bye { .. } => "bye",
            Cfg::App { .. } => "app",
            Cfg::Fb { kind: FbKind::Transport, fci, .. } => match fci {
                Fci::Nack(_) => "tfb-nack",
                Fci::Pli => "tfb-pli",
                Fci::Sli(_) => "tfb-sli",
                Fci::Rpsi { .. } => "tfb-rpsi",
                Fci::Fir(_) => "tfb-fir",
            },
            Cfg::Fb { kind: FbKind::Payload, fci, .. } => match fci {
                Fci::Nack(_) => "pfb-nack",
                Fci::Pli => "pfb-pli",
                Fci::Sli(_) => "pfb-sli",
                Fci::Rpsi { .. } => "pfb-rpsi",
                Fci::Fir(_) => "pfb-fir",
            },
            Cfg::Unknown { .. } => "unknown",
            Cfg::Custom { .. } => "custom",
            Cfg::Compound(_) => "compound",
        }
    }
    pub fn padding(&self) -> u8 {
        match self {
            Cfg::Sr { padding, .. }
            | Cfg::Rr { padding, .. }
            | Cfg::Sdes { padding, .. }
            | Cfg::Bye { padding, .. }
            | Cfg::App { padding, .. }
            | Cfg::Fb { padding, .. }
            | Cfg::Unknown { padding, .. }
            | Cfg::Custom { padding, .. } => *padding,
            Cfg::Compound(m) => m.last().map(|c| c.padding()).unwrap_or(0),
        }
    }
    pub fn set_padding(&mut self, p: u8) {
        match self {
            Cfg::Sr { padding, .. }
            | Cfg::Rr { padding, .. }
            | Cfg::Sdes { padding, .. }
            | Cfg::Bye { padding, .. }
            | Cfg::App { padding, .. }
            | Cfg::Fb { padding, .. }
            | Cfg::Unknown { padding, .. }
            | Cfg::Custom { padding, .. } => *padding = p,
            Cfg::Compound(m) => {
                if let Some(l) = m.last_mut() {
                    l.set_padding(p)
                }
            }
        }
    }
    pub fn is_compound(&self) -> bool {
        matches!(self, Cfg::Compound(_))
    }

    // ---------------------------------------------------------------- JSON
    pub fn to_json(&self) -> J {
        let rb = |b: &Rb| {
            J::obj()
                .set("ssrc", b.ssrc)
                .set("fraction", b.fraction)
                .set("cumulative", b.cumulative)
                .set("ext_seq", b.ext_seq)
                .set("jitter", b.jitter)
                .set("lsr", b.lsr)
                .set("dlsr", b.dlsr)
        };
        match self {
            Cfg::Sr { ssrc, ntp, rtp, pc, oc, blocks, padding } => J::obj()
                .set("t", "sr")
                .set("ssrc", *ssrc)
                .set("ntp", *ntp)
                .set("rtp", *rtp)
                .set("pc", *pc)
                .set("oc", *oc)
                .set("blocks", J::Arr(blocks.iter().map(rb).collect()))
                .set("padding", *padding),
            Cfg::Rr { ssrc, blocks, padding } => J::obj()
                .set("t", "rr")
                .set("ssrc", *ssrc)
                .set("blocks", J::Arr(blocks.iter().map(rb).collect()))
                .set("padding", *padding),
            Cfg::Sdes { chunks, padding } => J::obj()
                .set("t", "sdes")
                .set(
                    "chunks",
                    J::Arr(
                        chunks
                            .iter()
                            .map(|c| {
                                J::obj().set("ssrc", c.ssrc).set(
                                    "items",
                                    J::Arr(
                                        c.items
                                            .iter()
                                            .map(|i| {
                                                J::obj()
                                                    .set("type", i.type_)
                                                    .set("prefix", hex(&i.prefix))
                                                    .set("value_utf8_hex", hex(i.value.as_bytes()))
                                            })
                                            .collect(),
                                    ),
                                )
                            })
                            .collect(),
                    ),
                )
                .set("padding", *padding),
            Cfg::Bye { sources, reason, padding } => J::obj()
                .set("t", "bye")
                .set("sources", J::Arr(sources.iter().map(|s| J::from(*s)).collect()))
                .set("reason_utf8_hex", hex(reason.as_bytes()))
                .set("padding", *padding),
            Cfg::App { ssrc, subtype, name, data, padding } => J::obj()
                .set("t", "app")
                .set("ssrc", *ssrc)
                .set("subtype", *subtype)
                .set("name_utf8_hex", hex(name.as_bytes()))
                .set("data", hex(data))
                .set("padding", *padding),
            Cfg::Fb { kind, sender, media, fci, padding } => J::obj()
                .set("t", "fb")
                .set("kind", if *kind == FbKind::Transport { "transport" } else { "payload" })
                .set("sender", *sender)
                .set("media", *media)
                .set(
                    "fci",
                    match fci {
                        Fci::Nack(v) => {
                            J::obj().set("f", "nack").set("seqs", J::Arr(v.iter().map(|s| J::from(*s)).collect()))
                        }
                        Fci::Pli => J::obj().set("f", "pli"),
                        Fci::Sli(v) => J::obj().set("f", "sli").set(
                            "entries",
                            J::Arr(v.iter().map(|e| J::Arr(vec![e.0.into(), e.1.into(), e.2.into()])).collect()),
                        ),
                        Fci::Rpsi { pt, bits, overrun } => {
                            J::obj().set("f", "rpsi").set("pt", *pt).set("bits", hex(bits)).set("overrun", *overrun)
                        }
                        Fci::Fir(v) => J::obj().set("f", "fir").set(
                            "entries",
                            J::Arr(v.iter().map(|e| J::Arr(vec![e.0.into(), e.1.into()])).collect()),
                        ),
                    },
                )
                .set("padding", *padding),
            Cfg::Unknown { pt, count, data, padding } => J::obj()
                .set("t", "unknown")
                .set("pt", *pt)
                .set("count", *count)
                .set("data", hex(data))
                .set("padding", *padding),
            Cfg::Custom { pt, min, count, body, padding } => J::obj()
                .set("t", "custom")
                .set("pt", *pt)
                .set("min", *min)
                .set("count", *count)
                .set("body", hex(body))
                .set("padding", *padding),
            Cfg::Compound(m) => {
                J::obj().set("t", "compound").set("members", J::Arr(m.iter().map(|c| c.to_json()).collect()))
            }
        }
    }

    pub fn from_json(j: &J) -> Result<Cfg, String> {
        let utf8 = |h: &str| String::from_utf8(unhex(h)?).map_err(|e| e.to_string());
        let rbs = |j: &J| -> Result<Vec<Rb>, String> {
            j.ga("blocks")?
                .iter()
                .map(|b| {
                    Ok(Rb {
                        ssrc: b.gi("ssrc")? as u32,
                        fraction: b.gi("fraction")? as u8,
                        cumulative: b.gi("cumulative")? as u32,
                        ext_seq: b.gi("ext_seq")? as u32,
                        jitter: b.gi("jitter")? as u32,
                        lsr: b.gi("lsr")? as u32,
                        dlsr: b.gi("dlsr")? as u32,
                    })
                })
                .collect()
        };
        let pad = j.get("padding").and_then(|p| p.int()).unwrap_or(0) as u8;
        Ok(match j.gs("t")? {
            "sr" => Cfg::Sr {
                ssrc: j.gi("ssrc")? as u32,
                ntp: j.gi("ntp")? as u64,
                rtp: j.gi("rtp")? as u32,
                pc: j.gi("pc")? as u32,
                oc: j.gi("oc")? as u32,
                blocks: rbs(j)?,
                padding: pad,
            },
            "rr" => Cfg::Rr { ssrc: j.gi("ssrc")? as u32, blocks: rbs(j)?, padding: pad },
            "sdes" => Cfg::Sdes {
                chunks: j
                    .ga("chunks")?
                    .iter()
                    .map(|c| {
                        Ok(Chunk {
                            ssrc: c.gi("ssrc")? as u32,
                            items: c
                                .ga("items")?
                                .iter()
                                .map(|i| {
                                    Ok(Item {
                                        type_: i.gi("type")? as u8,
                                        prefix: unhex(i.gs("prefix")?)?,
                                        value: utf8(i.gs("value_utf8_hex")?)?,
                                    })
                                })
                                .collect::<Result<_, String>>()?,
                        })
                    })
                    .collect::<Result<_, String>>()?,
                padding: pad,
            },
            "bye" => Cfg::Bye {
                sources: j.ga("sources")?.iter().map(|s| s.int().unwrap_or(0) as u32).collect(),
                reason: utf8(j.gs("reason_utf8_hex")?)?,
                padding: pad,
            },
            "app" => Cfg::App {
                ssrc: j.gi("ssrc")? as u32,
                subtype: j.gi("subtype")? as u8,
                name: utf8(j.gs("name_utf8_hex")?)?,
                data: unhex(j.gs("data")?)?,
                padding: pad,
            },
            "fb" => {
                let f = j.get("fci").ok_or("missing fci")?;
                let fci = match f.gs("f")? {
                    "nack" => Fci::Nack(f.ga("seqs")?.iter().map(|s| s.int().unwrap_or(0) as u16).collect()),
                    "pli" => Fci::Pli,
                    "sli" => Fci::Sli(
                        f.ga("entries")?
                            .iter()
                            .map(|e| {
                                let a = e.arr().ok_or("sli entry")?;
                                Ok((
                                    a[0].int().unwrap_or(0) as u16,
                                    a[1].int().unwrap_or(0) as u16,
                                    a[2].int().unwrap_or(0) as u8,
                                ))
                            })
                            .collect::<Result<_, String>>()?,
                    ),
                    "rpsi" => Fci::Rpsi {
                        pt: f.gi("pt")? as u8,
                        bits: unhex(f.gs("bits")?)?,
                        overrun: f.gi("overrun")? as u8,
                    },
                    "fir" => Fci::Fir(
                        f.ga("entries")?
                            .iter()
                            .map(|e| {
                                let a = e.arr().ok_or("fir entry")?;
                                Ok((a[0].int().unwrap_or(0) as u32, a[1].int().unwrap_or(0) as u8))
                            })
                            .collect::<Result<_, String>>()?,
                    ),
                    o => return Err(format!("unknown fci {o}")),
                };
                Cfg::Fb {
                    kind: if j.gs("kind")? == "transport" { FbKind::Transport } else { FbKind::Payload },
                    sender: j.gi("sender")? as u32,
                    media: j.gi("media")? as u32,
                    fci,
                    padding: pad,
                }
            }
            "unknown" => Cfg::Unknown {
                pt: j.gi("pt")? as u8,
                count: j.gi("count")? as u8,
                data: unhex(j.gs("data")?)?,
                padding: pad,
            },
            "custom" => Cfg::Custom {
                pt: j.gi("pt")? as u8,
                min: j.gi("min")? as usize,
                count: j.gi("count")? as u8,
                body: unhex(j.gs("body")?)?,
                padding: pad,
            },
            "compound" => {
                Cfg::Compound(j.ga("members")?.iter().map(Cfg::from_json).collect::<Result<_, String>>()?)
            }
            o => return Err(format!("unknown cfg type {o}")),
        })
    }

    /// A short human-readable shape description (used in evidence samples)
    pub fn shape(&self) -> String {
        match self {
            Cfg::Sr { blocks, padding, .. } => format!("sr(blocks={},pad={})", blocks.len(), padding),
            Cfg::Rr { blocks, padding, .. } => format!("rr(blocks={},pad={})", blocks.len(), padding),
            Cfg::Sdes { chunks, padding } => format!(
                "sdes(chunks=[{}],pad={})",
                chunks
                    .iter()
                    .map(|c| format!(
                        "{:08x}:{}",
                        c.ssrc,
                        c.items
                            .iter()
                            .map(|i| if i.type_ == 8 {
                                format!("p{}+{}", i.prefix.len(), i.value.len())
                            } else {
                                format!("t{}:{}", i.type_, i.value.len())
                            })
                            .collect::<Vec<_>>()
                            .join(",")
                    ))
                    .collect::<Vec<_>>()
                    .join(" "),
                padding
            ),
            Cfg::Bye { sources, reason, padding } => {
                format!("bye(sources={},reason={}B,pad={})", sources.len(), reason.len(), padding)
            }
            Cfg::App { subtype, name, data, padding, .. } => {
                format!("app(subtype={},name={:?},data={}B,pad={})", subtype, name, data.len(), padding)
            }
            Cfg::Fb { kind, fci, padding, .. } => format!(
                "{}({},pad={})",
                if *kind == FbKind::Transport { "rtpfb" } else { "psfb" },
                match fci {
                    Fci::Nack(v) => format!("nack n={}", v.len()),
                    Fci::Pli => "pli".to_string(),
                    Fci::Sli(v) => format!("sli n={}", v.len()),
                    Fci::Rpsi { pt, bits, overrun } => format!("rpsi pt={} len={} ignore={}", pt, bits.len(), overrun),
                    Fci::Fir(v) => format!("fir n={}", v.len()),
                },
                padding
            ),
            Cfg::Unknown { pt, count, data, padding } => {
                format!("unknown(pt={},count={},data={}B,pad={})", pt, count, data.len(), padding)
            }
            Cfg::Custom { pt, min, count, body, padding } => {
                format!("custom<{},{}>(count={},body={}B,pad={})", pt, min, count, body.len(), padding)
            }
            Cfg::Compound(m) => format!("compound[{}]", m.iter().map(|c| c.shape()).collect::<Vec<_>>().join(", ")),
        }
    }
}
