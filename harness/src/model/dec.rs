//! Independent readers, predicates and decoders written from the RFC text.

pub fn be16(b: &[u8], o: usize) -> u16 {
    ((b[o] as u16) << 8) | b[o + 1] as u16
}
pub fn be24(b: &[u8], o: usize) -> u32 {
    ((b[o] as u32) << 16) | ((b[o + 1] as u32) << 8) | b[o + 2] as u32
}
pub fn be32(b: &[u8], o: usize) -> u32 {
    ((be16(b, o) as u32) << 16) | be16(b, o + 2) as u32
}
pub fn be64(b: &[u8], o: usize) -> u64 {
    ((be32(b, o) as u64) << 32) | be32(b, o + 4) as u64
}

/// header-declared length in bytes (needs len >= 4)
pub fn declared_len(b: &[u8]) -> usize {
    4 * (be16(b, 2) as usize + 1)
}
pub fn version(b: &[u8]) -> u8 {
    b[0] >> 6
}
pub fn p_bit(b: &[u8]) -> bool {
    b[0] & 0x20 != 0
}
pub fn count(b: &[u8]) -> u8 {
    b[0] & 0x1f
}

/// The framing conditions of C08 for a typed parser (`pt = Some`) or the
/// unknown-packet parser (`pt = None`, which also does not look at padding).
pub fn well_framed(b: &[u8], pt: Option<u8>, min: usize) -> bool {
    if b.len() < min.max(4) {
        return false;
    }
    if version(b) != 2 {
        return false;
    }
    if let Some(pt) = pt {
        if b[1] != pt {
            return false;
        }
    }
    if declared_len(b) != b.len() {
        return false;
    }
    if pt.is_some() && p_bit(b) && b[b.len() - 1] == 0 {
        return false;
    }
    true
}

/// Minimum size a body must have for what the count field announces.
pub fn count_implied_min(pt: u8, count: u8) -> usize {
    match pt {
        200 => 28 + 24 * count as usize,
        201 => 8 + 24 * count as usize,
        203 => 4 + 4 * count as usize,
        _ => 0,
    }
}

pub fn min_len_of(pt: u8) -> usize {
    match pt {
        200 => 28,
        201 => 8,
        202 => 4,
        203 => 4,
        204 => 12,
        205 => 12,
        206 => 12,
        _ => 4,
    }
}

/// Compound tiling: `Some(tile ranges)` iff b is non-empty and the chain of
/// length fields partitions it exactly.
pub fn tiling(b: &[u8]) -> Option<Vec<(usize, usize)>> {
    if b.is_empty() {
        return None;
    }
    let mut tiles = vec![];
    let mut o = 0;
    while o < b.len() {
        if b.len() - o < 4 {
            return None;
        }
        let l = declared_len(&b[o..]);
        if l > b.len() - o {
            return None;
        }
        tiles.push((o, o + l));
        o += l;
    }
    Some(tiles)
}

// ------------------------------------------------------------------ FCI

/// RFC 4585 §6.2.1: per word, PID then PID+k for every set bit k-1 of BLP.
pub fn nack(fci: &[u8]) -> Vec<u16> {
    let mut out = vec![];
    for w in fci.chunks_exact(4) {
        let pid = be16(w, 0);
        let blp = be16(w, 2);
        out.push(pid);
        for k in 1..=16u16 {
            if blp & (1 << (k - 1)) != 0 {
                out.push(pid.wrapping_add(k));
            }
        }
    }
    out
}

/// RFC 5104 §4.3.1.1: SSRC (32), Seq nr (8), Reserved (24)
pub fn fir(fci: &[u8]) -> Vec<(u32, u8)> {
    fci.chunks_exact(8).map(|e| (be32(e, 0), e[4])).collect()
}

/// RFC 4585 §6.3.2.2: First (13), Number (13), PictureID (6)
pub fn sli(fci: &[u8]) -> Vec<(u16, u16, u8)> {
    fci.chunks_exact(4)
        .map(|e| {
            let w = be32(e, 0);
            ((w >> 19) as u16, ((w >> 6) & 0x1fff) as u16, (w & 0x3f) as u8)
        })
        .collect()
}

/// A bit string: (bytes, number of significant bits). Two are equal when the
/// significant bits are equal.
#[derive(Clone, Debug)]
pub struct Bits {
    pub bytes: Vec<u8>,
    pub nbits: usize,
}
impl Bits {
    pub fn new(bytes: &[u8], ignored_trailing_bits: usize) -> Option<Bits> {
        let total = bytes.len() * 8;
        if ignored_trailing_bits > total {
            return None;
        }
        Some(Bits { bytes: bytes.to_vec(), nbits: total - ignored_trailing_bits })
    }
    pub fn bit(&self, i: usize) -> bool {
        self.bytes[i / 8] & (0x80 >> (i % 8)) != 0
    }
    pub fn same(&self, o: &Bits) -> bool {
        self.nbits == o.nbits && (0..self.nbits).all(|i| self.bit(i) == o.bit(i))
    }
    pub fn render(&self) -> String {
        format!("{} bits of {}", self.nbits, crate::json::hex(&self.bytes))
    }
}

/// RFC 4585 §6.3.3.2: PB (8) | 0 | Payload Type (7) | native bit string | padding (#PB bits)
/// Returns None when the message is shorter than 2 bytes or PB exceeds the string.
pub fn rpsi(fci: &[u8]) -> Option<(u8, Bits)> {
    if fci.len() < 2 {
        return None;
    }
    let pb = fci[0] as usize;
    let bits = Bits::new(&fci[2..], pb)?;
    Some((fci[1] & 0x7f, bits))
}

// ------------------------------------------------------------------ SDES

#[derive(Clone, Debug, PartialEq, Eq)]
pub struct TokItem {
    pub type_: u8,
    pub length: usize,
    /// offset of the item (its type octet) in the packet
    pub at: usize,
    pub prefix: Option<Vec<u8>>,
    pub value: Vec<u8>,
}
#[derive(Clone, Debug, PartialEq, Eq)]
pub struct TokChunk {
    pub ssrc: u32,
    pub items: Vec<TokItem>,
    /// encoded size of the chunk (SSRC + items + terminator + fill)
    pub encoded_len: usize,
}

#[derive(Clone, Debug, PartialEq, Eq)]
pub enum RejectReason {
    ItemOverrun,
    PrivPrefixOverrun,
    NonZeroFill,
}

#[derive(Clone, Debug, PartialEq, Eq)]
pub enum SdesClass {
    MustAccept(Vec<TokChunk>),
    MustReject(RejectReason),
    /// RFC leaves it open; `why` names the first ambiguity
    Either(&'static str),
}

/// Three-valued classification of a byte string that is framed as an SDES
/// packet (caller guarantees `well_framed(b, Some(202), 4)`).
pub fn sdes_classify(b: &[u8]) -> SdesClass {
    let len = b.len();
    let mut end = len;
    if p_bit(b) {
        let pad = b[len - 1] as usize;
        if pad % 4 != 0 || pad > len - 4 {
            return SdesClass::Either("irregular-padding");
        }
        end = len - pad;
    }
    let mut chunks = vec![];
    let mut o = 4;
    let mut ambiguity: Option<&'static str> = None;
    while o < end {
        // end and o are word aligned here, so a full SSRC is available
        let start = o;
        let ssrc = be32(b, o);
        o += 4;
        let mut items = vec![];
        let mut terminated = false;
        while o < end {
            let t = b[o];
            if t == 0 {
                terminated = true;
                o += 1;
                while o % 4 != 0 {
                    if b[o] != 0 {
                        return SdesClass::MustReject(RejectReason::NonZeroFill);
                    }
                    o += 1;
                }
                break;
            }
            if o + 1 >= end {
                return SdesClass::MustReject(RejectReason::ItemOverrun); // header cut by the packet end
            }
            let l = b[o + 1] as usize;
            if o + 2 + l > end {
                return SdesClass::MustReject(RejectReason::ItemOverrun);
            }
            let body = &b[o + 2..o + 2 + l];
            if t == 8 {
                if l == 0 {
                    ambiguity.get_or_insert("priv-without-prefix-length");
                    items.push(TokItem { type_: t, length: l, at: o, prefix: None, value: vec![] });
                } else {
                    let pl = body[0] as usize;
                    if 1 + pl > l {
                        return SdesClass::MustReject(RejectReason::PrivPrefixOverrun);
                    }
                    items.push(TokItem {
                        type_: t,
                        length: l,
                        at: o,
                        prefix: Some(body[1..1 + pl].to_vec()),
                        value: body[1 + pl..].to_vec(),
                    });
                }
            } else {
                items.push(TokItem { type_: t, length: l, at: o, prefix: None, value: body.to_vec() });
            }
            o += 2 + l;
        }
        if !terminated {
            // items ran to the very end of the body without a null octet
            ambiguity.get_or_insert("unterminated-last-chunk");
            if o % 4 != 0 {
                // cannot happen: end is aligned and o == end
                return SdesClass::Either("unaligned-end");
            }
        }
        chunks.push(TokChunk { ssrc, items, encoded_len: o - start });
    }
    if let Some(a) = ambiguity {
        return SdesClass::Either(a);
    }
    if chunks.len() != count(b) as usize {
        return SdesClass::Either("sc-mismatch");
    }
    SdesClass::MustAccept(chunks)
}

/// What the parser under test yielded for one item, with where its slices point.
pub struct SeenItem {
    pub type_: u8,
    pub length: usize,
    /// offset of value slice inside the packet, when non-empty and inside it
    pub value_off: Option<usize>,
    pub value: Vec<u8>,
    pub prefix: Option<Vec<u8>>,
}
pub struct SeenChunk {
    pub ssrc: u32,
    pub items: Vec<SeenItem>,
}

/// Consistency matcher for the `Either` class: can the yielded chunks be laid
/// out, in order, over `b[4..end]` for one of the admissible `end`s?
pub fn sdes_consistent(b: &[u8], seen: &[SeenChunk]) -> Result<(), String> {
    let len = b.len();
    let mut ends = vec![len];
    if p_bit(b) {
        let pad = b[len - 1] as usize;
        if pad <= len - 4 {
            ends.insert(0, len - pad);
        }
    }
    let mut last_err = String::new();
    for end in ends {
        // the result of laying out a suffix of the chunks from an offset depends only on
        // (offset, suffix length): remember the failures, so that the search is polynomial
        let mut failed = std::collections::HashSet::new();
        match lay(b, end, 4, seen, &mut failed) {
            Ok(()) => return Ok(()),
            Err(e) => last_err = format!("end={end}: {e}"),
        }
    }
    Err(last_err)
}

fn lay(b: &[u8], end: usize, at: usize, seen: &[SeenChunk], failed: &mut std::collections::HashSet<(usize, usize)>) -> Result<(), String> {
    if failed.contains(&(at, seen.len())) {
        return Err(format!("no layout of the remaining {} chunk(s) from offset {at}", seen.len()));
    }
    let r = lay_inner(b, end, at, seen, failed);
    if r.is_err() {
        failed.insert((at, seen.len()));
    }
    r
}

fn lay_inner(b: &[u8], end: usize, at: usize, seen: &[SeenChunk], failed: &mut std::collections::HashSet<(usize, usize)>) -> Result<(), String> {
    if seen.is_empty() {
        // nothing left over: only zeros may remain
        return if b[at.min(end)..end].iter().all(|&x| x == 0) {
            Ok(())
        } else {
            Err(format!("non-zero bytes left over after the last yielded chunk at {at}"))
        };
    }
    let c = &seen[0];
    if at % 4 != 0 {
        return Err(format!("chunk start {at} not word aligned"));
    }
    if at + 4 > end {
        return Err(format!("no room for SSRC of yielded chunk at {at}"));
    }
    if super::dec::be32(b, at) != c.ssrc {
        return Err(format!("SSRC at {at} is {:08x}, yielded {:08x}", be32(b, at), c.ssrc));
    }
    let mut p = at + 4;
    for (k, it) in c.items.iter().enumerate() {
        if p + 2 > end {
            return Err(format!("item {k} header at {p} beyond body end {end}"));
        }
        if b[p] != it.type_ || b[p + 1] as usize != it.length {
            return Err(format!(
                "item {k} at {p}: bytes say type {} len {}, yielded type {} len {}",
                b[p],
                b[p + 1],
                it.type_,
                it.length
            ));
        }
        if p + 2 + it.length > end {
            return Err(format!("item {k} at {p} overruns body end {end}"));
        }
        let body = &b[p + 2..p + 2 + it.length];
        let (exp_prefix, exp_value_off): (Option<&[u8]>, usize) = if it.type_ == 8 {
            if it.length == 0 {
                return Err(format!("PRIV item {k} at {p} with length 0 yielded"));
            }
            let pl = body[0] as usize;
            if 1 + pl > it.length {
                return Err(format!("PRIV item {k} at {p}: prefix {pl} overruns item length {}", it.length));
            }
            (Some(&body[1..1 + pl]), p + 3 + pl)
        } else {
            (None, p + 2)
        };
        let exp_value = &b[exp_value_off..p + 2 + it.length];
        if it.value != exp_value {
            return Err(format!("item {k} at {p}: value bytes differ from the wire"));
        }
        if let Some(off) = it.value_off {
            if off != exp_value_off {
                return Err(format!("item {k} at {p}: value slice points at {off}, expected {exp_value_off}"));
            }
        }
        if let (Some(ep), Some(sp)) = (exp_prefix, &it.prefix) {
            if ep != &sp[..] {
                return Err(format!("PRIV item {k} at {p}: prefix bytes differ from the wire"));
            }
        }
        p += 2 + it.length;
    }
    // zeros up to the start q of the next chunk; terminator required unless this
    // is the final chunk ending exactly at the body end
    let rest = &seen[1..];
    let mut q = (p + 3) / 4 * 4;
    let mut err = String::from("no admissible start for the next chunk");
    loop {
        if q > end {
            break;
        }
        if !b[p..q].iter().all(|&x| x == 0) {
            if err.starts_with("no admissible") {
                err = format!("non-zero byte between the last item (ends {p}) and {q}");
            }
            break;
        }
        let terminated = q > p;
        if terminated || (rest.is_empty() && q == end) {
            match lay(b, end, q, rest, failed) {
                Ok(()) => return Ok(()),
                Err(e) => err = e,
            }
        }
        q += 4;
    }
    Err(err)
}
