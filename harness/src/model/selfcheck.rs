pub fn run() -> Result<usize, String> { Ok(0) }
