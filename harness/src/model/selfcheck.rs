//! Model self-check, run at the start of every process. The reference model
//! must reproduce fixed vectors: the byte images hand-written by the crate's
//! maintainers in its unit tests (copied here as constants) and vectors worked
//! by hand from the RFC figures. A failure is a harness error (INCONCLUSIVE),
//! never a violation.

use super::dec::{self, RejectReason, SdesClass};
use super::{enc, repr};
use crate::cfg::*;
use crate::json::hex;

fn rb0(ssrc: u32) -> Rb {
    Rb { ssrc, fraction: 0, cumulative: 0, ext_seq: 0, jitter: 0, lsr: 0, dlsr: 0 }
}

fn item(t: u8, p: &[u8], v: &str) -> Item {
    Item { type_: t, prefix: p.to_vec(), value: v.to_string() }
}

pub fn run() -> Result<usize, String> {
    let mut n = 0usize;
    let mut enc_eq = |name: &str, cfg: Cfg, want: &[u8]| -> Result<(), String> {
        n += 1;
        let got = enc::enc(&cfg).ok_or_else(|| format!("{name}: model says unrepresentable"))?;
        if got != want {
            return Err(format!("{name}: model image {} != expected {}", hex(&got), hex(want)));
        }
        if enc::size_of(&cfg) != want.len() {
            return Err(format!("{name}: size_of {} != {}", enc::size_of(&cfg), want.len()));
        }
        Ok(())
    };

    // ---- images from the crate's own unit tests
    enc_eq("app empty", Cfg::App { ssrc: 0x91827364, subtype: 0, name: "name".into(), data: vec![], padding: 0 },
        &[0x80, 0xcc, 0x00, 0x02, 0x91, 0x82, 0x73, 0x64, 0x6e, 0x61, 0x6d, 0x65])?;
    enc_eq("app padded", Cfg::App { ssrc: 0x91827364, subtype: 31, name: "name".into(), data: vec![1, 2, 3, 0], padding: 4 },
        &[0xbf, 0xcc, 0x00, 0x04, 0x91, 0x82, 0x73, 0x64, 0x6e, 0x61, 0x6d, 0x65, 0x01, 0x02, 0x03, 0x00, 0x00, 0x00, 0x00, 0x04])?;
    enc_eq("app short name", Cfg::App { ssrc: 0x91827364, subtype: 31, name: "nam".into(), data: vec![], padding: 0 },
        &[0x9f, 0xcc, 0x00, 0x02, 0x91, 0x82, 0x73, 0x64, 0x6e, 0x61, 0x6d, 0x00])?;
    enc_eq("bye empty", Cfg::Bye { sources: vec![], reason: String::new(), padding: 0 }, &[0x80, 0xcb, 0x00, 0x00])?;
    enc_eq("bye static", Cfg::Bye { sources: vec![0x12345678], reason: "Bye".into(), padding: 0 },
        &[0x81, 0xcb, 0x00, 0x02, 0x12, 0x34, 0x56, 0x78, 0x03, 0x42, 0x79, 0x65])?;
    enc_eq("bye 3 sources", Cfg::Bye { sources: vec![0x12345678, 0x3456789a, 0x56789abc], reason: String::new(), padding: 0 },
        &[0x83, 0xcb, 0x00, 0x03, 0x12, 0x34, 0x56, 0x78, 0x34, 0x56, 0x78, 0x9a, 0x56, 0x78, 0x9a, 0xbc])?;
    enc_eq("bye reason", Cfg::Bye { sources: vec![0x12345678, 0x3456789a], reason: "Shutdown".into(), padding: 0 },
        &[0x82, 0xcb, 0x00, 0x05, 0x12, 0x34, 0x56, 0x78, 0x34, 0x56, 0x78, 0x9a, 0x08, 0x53, 0x68, 0x75, 0x74, 0x64, 0x6f, 0x77, 0x6e, 0x00, 0x00, 0x00])?;
    enc_eq("rr empty", Cfg::Rr { ssrc: 0x91827364, blocks: vec![], padding: 0 }, &[0x80, 0xc9, 0x00, 0x01, 0x91, 0x82, 0x73, 0x64])?;
    {
        let mut want = vec![0xa2, 0xc9, 0x00, 0x0e, 0x91, 0x82, 0x73, 0x64, 0x01, 0x23, 0x45, 0x67];
        want.extend_from_slice(&[0; 20]);
        want.extend_from_slice(&[0x01, 0x23, 0x45, 0x68]);
        want.extend_from_slice(&[0; 20]);
        want.extend_from_slice(&[0, 0, 0, 4]);
        enc_eq("rr 2 blocks padded", Cfg::Rr { ssrc: 0x91827364, blocks: vec![rb0(0x1234567), rb0(0x1234568)], padding: 4 }, &want)?;
    }
    {
        let mut want = vec![0x82, 0xc8, 0x00, 0x12, 0x91, 0x82, 0x73, 0x64, 0x89, 0xab, 0xcd, 0xef, 0x02, 0x24, 0x46, 0x68, 0x8a, 0xac, 0xce, 0xe0, 0xf1, 0xe2, 0xd3, 0xc4, 0xb5, 0xa6, 0x97, 0x88, 0x01, 0x23, 0x45, 0x67];
        want.extend_from_slice(&[0; 20]);
        want.extend_from_slice(&[0x01, 0x23, 0x45, 0x68]);
        want.extend_from_slice(&[0; 20]);
        enc_eq("sr 2 blocks", Cfg::Sr { ssrc: 0x91827364, ntp: 0x89abcdef02244668, rtp: 0x8aaccee0, pc: 0xf1e2d3c4, oc: 0xb5a69788, blocks: vec![rb0(0x1234567), rb0(0x1234568)], padding: 0 }, &want)?;
    }
    enc_eq("report block fields", Cfg::Rr { ssrc: 1, blocks: vec![Rb { ssrc: 0x1234567, fraction: 0x89, cumulative: 0xabcdef, ext_seq: 0x02244668, jitter: 0x8aaccee0, lsr: 0xf1d3b597, dlsr: 0x795b3d1f }], padding: 0 },
        &[0x81, 0xc9, 0x00, 0x07, 0, 0, 0, 1, 0x01, 0x23, 0x45, 0x67, 0x89, 0xab, 0xcd, 0xef, 0x02, 0x24, 0x46, 0x68, 0x8a, 0xac, 0xce, 0xe0, 0xf1, 0xd3, 0xb5, 0x97, 0x79, 0x5b, 0x3d, 0x1f])?;
    enc_eq("sdes cname name priv", Cfg::Sdes { chunks: vec![Chunk { ssrc: 0x12345678, items: vec![item(1, &[], "cname"), item(2, &[], "François"), item(8, b"priv-prefix", "priv-value")] }], padding: 0 },
        &[0x81, 0xca, 0x00, 0x0c, 0x12, 0x34, 0x56, 0x78, 0x01, 0x05, 0x63, 0x6e, 0x61, 0x6d, 0x65, 0x02, 0x09, 0x46, 0x72, 0x61, 0x6e, 0xc3, 0xa7, 0x6f, 0x69, 0x73, 0x08, 0x16, 0x0b, 0x70, 0x72, 0x69, 0x76, 0x2d, 0x70, 0x72, 0x65, 0x66, 0x69, 0x78, 0x70, 0x72, 0x69, 0x76, 0x2d, 0x76, 0x61, 0x6c, 0x75, 0x65, 0x00, 0x00])?;
    enc_eq("sdes two chunks", Cfg::Sdes { chunks: vec![Chunk { ssrc: 0x12345678, items: vec![item(1, &[], "cname"), item(2, &[], "François")] }, Chunk { ssrc: 0x3456789a, items: vec![item(3, &[], "user@host"), item(4, &[], "+33678901234")] }], padding: 0 },
        &[0x82, 0xca, 0x00, 0x0e, 0x12, 0x34, 0x56, 0x78, 0x01, 0x05, 0x63, 0x6e, 0x61, 0x6d, 0x65, 0x02, 0x09, 0x46, 0x72, 0x61, 0x6e, 0xc3, 0xa7, 0x6f, 0x69, 0x73, 0x00, 0x00, 0x34, 0x56, 0x78, 0x9a, 0x03, 0x09, 0x75, 0x73, 0x65, 0x72, 0x40, 0x68, 0x6f, 0x73, 0x74, 0x04, 0x0c, 0x2b, 0x33, 0x33, 0x36, 0x37, 0x38, 0x39, 0x30, 0x31, 0x32, 0x33, 0x34, 0x00, 0x00, 0x00])?;
    enc_eq("sdes multiple of 4 has terminator", Cfg::Sdes { chunks: vec![Chunk { ssrc: 0x12345678, items: vec![item(1, &[], "cname"), item(2, &[], "name")] }], padding: 0 },
        &[0x81, 0xca, 0x00, 0x05, 0x12, 0x34, 0x56, 0x78, 0x01, 0x05, 0x63, 0x6e, 0x61, 0x6d, 0x65, 0x02, 0x04, 0x6e, 0x61, 0x6d, 0x65, 0x00, 0x00, 0x00])?;
    let nack_hdr = |fmt_len: [u8; 2]| vec![0x81, 0xcd, fmt_len[0], fmt_len[1], 0x98, 0x76, 0x54, 0x32, 0x10, 0xfe, 0xdc, 0xba];
    for (nseq, fci) in [(2u16, vec![0x12u8, 0x34, 0x00, 0x01]), (16, vec![0x12, 0x34, 0x7f, 0xff]), (17, vec![0x12, 0x34, 0xff, 0xff]), (18, vec![0x12, 0x34, 0xff, 0xff, 0x12, 0x45, 0x00, 0x00])] {
        let mut want = nack_hdr([0, (2 + fci.len() / 4) as u8]);
        want.extend_from_slice(&fci);
        enc_eq("nack consecutive", Cfg::Fb { kind: FbKind::Transport, sender: 0x98765432, media: 0x10fedcba, fci: Fci::Nack((0..nseq).map(|i| 0x1234 + i).collect()), padding: 0 }, &want)?;
    }
    {
        let mut want = nack_hdr([0, 3]);
        want.extend_from_slice(&[0x12, 0x34, 0x02, 0b1010_1010]);
        enc_eq("nack 12 step 2", Cfg::Fb { kind: FbKind::Transport, sender: 0x98765432, media: 0x10fedcba, fci: Fci::Nack((0..12u16).step_by(2).map(|i| 0x1234 + i).collect()), padding: 0 }, &want)?;
    }
    enc_eq("fir", Cfg::Fb { kind: FbKind::Payload, sender: 0x98765432, media: 0, fci: Fci::Fir(vec![(0xfedcba98, 0x30)]), padding: 0 },
        &[0x84, 0xce, 0x00, 0x04, 0x98, 0x76, 0x54, 0x32, 0x00, 0x00, 0x00, 0x00, 0xfe, 0xdc, 0xba, 0x98, 0x30, 0x00, 0x00, 0x00])?;
    enc_eq("sli", Cfg::Fb { kind: FbKind::Payload, sender: 0x98765432, media: 0x10fedcba, fci: Fci::Sli(vec![(0x1234, 0x0987, 0x25)]), padding: 0 },
        &[0x82, 0xce, 0x00, 0x03, 0x98, 0x76, 0x54, 0x32, 0x10, 0xfe, 0xdc, 0xba, 0x91, 0xa2, 0x61, 0xe5])?;
    enc_eq("rpsi", Cfg::Fb { kind: FbKind::Payload, sender: 0x98765432, media: 0x10fedcba, fci: Fci::Rpsi { pt: 96, bits: vec![0xff], overrun: 4 }, padding: 0 },
        &[0x83, 0xce, 0x00, 0x03, 0x98, 0x76, 0x54, 0x32, 0x10, 0xfe, 0xdc, 0xba, 0x0c, 0x60, 0xf0, 0x00])?;
    enc_eq("pli", Cfg::Fb { kind: FbKind::Payload, sender: 0x98765432, media: 0x10fedcba, fci: Fci::Pli, padding: 0 },
        &[0x81, 0xce, 0x00, 0x02, 0x98, 0x76, 0x54, 0x32, 0x10, 0xfe, 0xdc, 0xba])?;

    // ---- vectors worked by hand from the RFC figures
    // RFC 3550 6.4.1: padding octets end with their count; P bit; length includes padding
    enc_eq("bye reason + padding", Cfg::Bye { sources: vec![1], reason: "ab".into(), padding: 8 },
        &[0xa1, 0xcb, 0x00, 0x04, 0, 0, 0, 1, 0x02, 0x61, 0x62, 0x00, 0, 0, 0, 0, 0, 0, 0, 8])?;
    enc_eq("sdes empty chunk + padding", Cfg::Sdes { chunks: vec![Chunk { ssrc: 0x0000_0100, items: vec![] }], padding: 4 },
        &[0xa1, 0xca, 0x00, 0x03, 0, 0, 1, 0, 0, 0, 0, 0, 0, 0, 0, 4])?;
    enc_eq("sdes item ending on a boundary gets a full word of terminator", Cfg::Sdes { chunks: vec![Chunk { ssrc: 2, items: vec![item(1, &[], "ab")] }], padding: 0 },
        &[0x81, 0xca, 0x00, 0x03, 0, 0, 0, 2, 1, 2, 0x61, 0x62, 0, 0, 0, 0])?;
    enc_eq("sdes priv empty prefix", Cfg::Sdes { chunks: vec![Chunk { ssrc: 2, items: vec![item(8, &[], "v")] }], padding: 0 },
        &[0x81, 0xca, 0x00, 0x03, 0, 0, 0, 2, 8, 2, 0, 0x76, 0, 0, 0, 0])?;
    // RFC 4585 6.2.1: generic NACK PID + BLP, bit i of BLP = PID+i+1
    enc_eq("nack window edge", Cfg::Fb { kind: FbKind::Transport, sender: 1, media: 2, fci: Fci::Nack(vec![100, 116, 117]), padding: 4 },
        &[0xa1, 0xcd, 0x00, 0x05, 0, 0, 0, 1, 0, 0, 0, 2, 0, 100, 0x80, 0x00, 0, 117, 0, 0, 0, 0, 0, 4])?;
    // RFC 4585 6.3.3.2: RPSI padded to 32 bits, PB counts the padding bits
    enc_eq("rpsi 3 bytes", Cfg::Fb { kind: FbKind::Payload, sender: 1, media: 2, fci: Fci::Rpsi { pt: 127, bits: vec![1, 2, 3], overrun: 0 }, padding: 0 },
        &[0x83, 0xce, 0x00, 0x04, 0, 0, 0, 1, 0, 0, 0, 2, 24, 127, 1, 2, 3, 0, 0, 0])?;
    enc_eq("rpsi empty", Cfg::Fb { kind: FbKind::Payload, sender: 1, media: 2, fci: Fci::Rpsi { pt: 5, bits: vec![], overrun: 0 }, padding: 0 },
        &[0x83, 0xce, 0x00, 0x03, 0, 0, 0, 1, 0, 0, 0, 2, 16, 5, 0, 0])?;
    enc_eq("unknown padded", Cfg::Unknown { pt: 199, count: 3, data: vec![9, 8, 7, 6], padding: 4 }, &[0xa3, 199, 0, 2, 9, 8, 7, 6, 0, 0, 0, 4])?;
    enc_eq("compound", Cfg::Compound(vec![Cfg::Rr { ssrc: 1, blocks: vec![], padding: 0 }, Cfg::Bye { sources: vec![], reason: String::new(), padding: 0 }]),
        &[0x80, 0xc9, 0, 1, 0, 0, 0, 1, 0x80, 0xcb, 0, 0])?;

    // ---- model helper functions
    let mut check = |name: &str, ok: bool| -> Result<(), String> {
        n += 1;
        if ok {
            Ok(())
        } else {
            Err(format!("{name}: failed"))
        }
    };
    check("pad()", enc::pad(&[0x80, 0xcb, 0, 0], 4) == [0xa0, 0xcb, 0, 1, 0, 0, 0, 4])?;
    check("nack decode", dec::nack(&[0x12, 0x34, 0x00, 0x01]) == [0x1234, 0x1235])?;
    check("nack decode wrap", dec::nack(&[0xff, 0xff, 0x80, 0x01]) == [0xffff, 0x0000, 0x000f])?;
    check("nack greedy words", enc::nack_words(&[0, 16, 17, 65535]) == [(0, 0x8000), (17, 0), (65535, 0)])?;
    check("sli decode", dec::sli(&[0x91, 0xa2, 0x61, 0xe5]) == [(0x1234, 0x0987, 0x25)])?;
    check("fir decode", dec::fir(&[0xfe, 0xdc, 0xba, 0x98, 0x30, 0, 0, 0, 1]) == [(0xfedcba98, 0x30)])?;
    check("rpsi decode", matches!(dec::rpsi(&[0x0c, 0x60, 0xf0, 0x00]), Some((96, b)) if b.nbits == 4 && b.bit(0) && b.bit(3)))?;
    check("rpsi decode PB too large", dec::rpsi(&[17, 0x60, 0xf0, 0x00]).is_none())?;
    check("bits equality ignores trailing bits", dec::Bits::new(&[0xf7], 4).unwrap().same(&dec::Bits::new(&[0xf0], 4).unwrap()))?;
    check("tiling ok", dec::tiling(&[0x80, 0xc9, 0, 1, 0, 0, 0, 1, 0x80, 0xcb, 0, 0]) == Some(vec![(0, 8), (8, 12)]))?;
    check("tiling short", dec::tiling(&[0x80, 0xc9, 0, 2, 0, 0, 0, 1]).is_none())?;
    check("tiling empty", dec::tiling(&[]).is_none())?;
    check("tiling ragged", dec::tiling(&[0x80, 0xcb, 0, 0, 0x80]).is_none())?;
    check("well_framed", dec::well_framed(&[0x80, 0xcb, 0, 0], Some(203), 4) && !dec::well_framed(&[0xa0, 0xcb, 0, 1, 0, 0, 0, 0], Some(203), 4) && dec::well_framed(&[0xa0, 0xc7, 0, 1, 0, 0, 0, 0], None, 4))?;
    // SDES classifier
    check("classify well-formed", matches!(dec::sdes_classify(&[0x81, 0xca, 0, 3, 0, 0, 0, 2, 1, 2, 0x61, 0x62, 0, 0, 0, 0]), SdesClass::MustAccept(t) if t.len() == 1 && t[0].encoded_len == 12 && t[0].items[0].value == b"ab"))?;
    check("classify overrun", dec::sdes_classify(&[0x81, 0xca, 0, 2, 0, 0, 0, 2, 1, 9, 0x61, 0x62]) == SdesClass::MustReject(RejectReason::ItemOverrun))?;
    check("classify priv prefix overrun", dec::sdes_classify(&[0x81, 0xca, 0, 3, 0, 0, 0, 2, 8, 2, 5, 0x62, 0, 0, 0, 0]) == SdesClass::MustReject(RejectReason::PrivPrefixOverrun))?;
    check("classify fill", dec::sdes_classify(&[0x81, 0xca, 0, 2, 0, 0, 0, 2, 0, 1, 0, 0]) == SdesClass::MustReject(RejectReason::NonZeroFill))?;
    check("classify unterminated", matches!(dec::sdes_classify(&[0x81, 0xca, 0, 2, 0, 0, 0, 2, 1, 2, 0x61, 0x62]), SdesClass::Either(_)))?;
    check("classify sc mismatch", matches!(dec::sdes_classify(&[0x82, 0xca, 0, 2, 0, 0, 0, 2, 0, 0, 0, 0]), SdesClass::Either(_)))?;
    check("classify zero-ssrc chunk", matches!(dec::sdes_classify(&[0x82, 0xca, 0, 4, 0, 0, 0, 2, 0, 0, 0, 0, 0, 0, 0, 0, 0, 0, 0, 0]), SdesClass::MustAccept(t) if t.len() == 2 && t[1].ssrc == 0))?;
    // representability
    check("repr ok", repr::violations(&Cfg::App { ssrc: 1, subtype: 31, name: "abcd".into(), data: vec![0; 8], padding: 252 }).is_empty())?;
    check("repr rules", repr::violations(&Cfg::App { ssrc: 1, subtype: 32, name: "abcde".into(), data: vec![0; 7], padding: 3 }).len() == 4)?;
    check("repr priv", repr::violations(&Cfg::Sdes { chunks: vec![Chunk { ssrc: 1, items: vec![item(8, &[0; 200], &"x".repeat(55))] }], padding: 0 }).len() == 1)?;
    check("repr total size", repr::violations(&Cfg::Unknown { pt: 1, count: 0, data: vec![0; 262_144], padding: 0 }).len() == 1 && repr::violations(&Cfg::Unknown { pt: 1, count: 0, data: vec![0; 262_140], padding: 0 }).is_empty())?;
    Ok(n)
}
