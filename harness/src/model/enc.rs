//! Independent encoder, written from the text of RFC 3550 (§6.4–§6.7),
//! RFC 4585 (§6.1–§6.3) and RFC 5104 (§4.3.1). Append-only byte pushing with
//! the header patched at the end; shares no code with the crate under test.

use super::repr;
use crate::cfg::{Cfg, Chunk, FbKind, Fci, Rb};

pub const PT_SR: u8 = 200;
pub const PT_RR: u8 = 201;
pub const PT_SDES: u8 = 202;
pub const PT_BYE: u8 = 203;
pub const PT_APP: u8 = 204;
pub const PT_RTPFB: u8 = 205;
pub const PT_PSFB: u8 = 206;

/// Largest RTCP packet: the length field is 16 bits of (words - 1).
pub const MAX_PACKET_BYTES: usize = 4 * 65536;

fn be16(out: &mut Vec<u8>, v: u16) {
    out.push((v >> 8) as u8);
    out.push(v as u8);
}
fn be32(out: &mut Vec<u8>, v: u32) {
    be16(out, (v >> 16) as u16);
    be16(out, v as u16);
}
fn be64(out: &mut Vec<u8>, v: u64) {
    be32(out, (v >> 32) as u32);
    be32(out, v as u32);
}
fn zero_fill_to_word(out: &mut Vec<u8>) {
    while out.len() % 4 != 0 {
        out.push(0);
    }
}

/// Starts a packet: V=2, P=0, count, PT, length placeholder.
fn begin(count: u8, pt: u8) -> Vec<u8> {
    vec![0x80 | (count & 0x1f), pt, 0, 0]
}

/// Finishes a packet: appends RFC 3550 §6.4.1 padding ("the last octet of the
/// padding is a count of how many padding octets should be ignored, including
/// itself"), sets P, and patches the length ("length of this RTCP packet in
/// 32-bit words minus one, including the header and any padding").
fn finish(mut out: Vec<u8>, padding: u8) -> Vec<u8> {
    debug_assert!(out.len() % 4 == 0);
    if padding > 0 {
        for _ in 0..padding - 1 {
            out.push(0);
        }
        out.push(padding);
        out[0] |= 0x20;
    }
    let words_minus_one = out.len() / 4 - 1;
    out[2] = (words_minus_one >> 8) as u8;
    out[3] = words_minus_one as u8;
    out
}

/// Model function used by the padding-transparency relation (C13): take a
/// complete *unpadded* packet and append `n` octets of padding.
pub fn pad(p: &[u8], n: u8) -> Vec<u8> {
    assert!(n > 0 && n % 4 == 0 && p.len() >= 4 && p[0] & 0x20 == 0);
    let mut out = p.to_vec();
    finish_in_place(&mut out, n);
    out
}
fn finish_in_place(out: &mut Vec<u8>, padding: u8) {
    let v = finish(std::mem::take(out), padding);
    *out = v;
}

fn report_block(out: &mut Vec<u8>, b: &Rb) {
    be32(out, b.ssrc);
    out.push(b.fraction);
    out.push((b.cumulative >> 16) as u8);
    out.push((b.cumulative >> 8) as u8);
    out.push(b.cumulative as u8);
    be32(out, b.ext_seq);
    be32(out, b.jitter);
    be32(out, b.lsr);
    be32(out, b.dlsr);
}

pub fn sdes_chunk(out: &mut Vec<u8>, c: &Chunk) {
    be32(out, c.ssrc);
    for it in &c.items {
        out.push(it.type_);
        if it.type_ == 8 {
            // PRIV: length covers prefix-length octet + prefix + value
            out.push((1 + it.prefix.len() + it.value.len()) as u8);
            out.push(it.prefix.len() as u8);
            out.extend_from_slice(&it.prefix);
            out.extend_from_slice(it.value.as_bytes());
        } else {
            out.push(it.value.len() as u8);
            out.extend_from_slice(it.value.as_bytes());
        }
    }
    // "The list of items in each chunk MUST be terminated by one or more null
    // octets, the first of which is interpreted as an item type of zero ...
    // additional null octets MUST be included if needed to pad until the next
    // 32-bit boundary."
    out.push(0);
    zero_fill_to_word(out);
}

/// Encoded size of one chunk (used for C10's `SdesChunk::length()` clause)
pub fn sdes_chunk_len(c: &Chunk) -> usize {
    let mut v = vec![];
    sdes_chunk(&mut v, c);
    v.len()
}

/// Greedy minimal cover of an ascending, duplicate-free list by (PID, BLP)
/// words; never wraps around 65535 (so decoding stays ascending).
pub fn nack_words(sorted_unique: &[u16]) -> Vec<(u16, u16)> {
    let mut words = vec![];
    let mut i = 0;
    while i < sorted_unique.len() {
        let pid = sorted_unique[i];
        let mut blp = 0u16;
        i += 1;
        while i < sorted_unique.len() {
            let d = sorted_unique[i] as u32 - pid as u32;
            if d > 16 {
                break;
            }
            blp |= 1 << (d - 1);
            i += 1;
        }
        words.push((pid, blp));
    }
    words
}

pub fn fci_bytes(f: &Fci) -> Vec<u8> {
    let mut out = vec![];
    match f {
        Fci::Nack(list) => {
            for (pid, blp) in nack_words(&Fci::nack_final(list)) {
                be16(&mut out, pid);
                be16(&mut out, blp);
            }
        }
        Fci::Pli => {}
        Fci::Sli(v) => {
            for &(first, number, pic) in v {
                let w = ((first as u32 & 0x1fff) << 19) | ((number as u32 & 0x1fff) << 6) | (pic as u32 & 0x3f);
                be32(&mut out, w);
            }
        }
        Fci::Rpsi { pt, bits, overrun } => {
            // PB | 0 PT | native bit string | zero padding to 32 bits
            let body = 2 + bits.len();
            let fill = (4 - body % 4) % 4;
            out.push((8 * fill + *overrun as usize) as u8);
            out.push(pt & 0x7f);
            out.extend_from_slice(bits);
            if let Some(last) = out.last_mut() {
                if !bits.is_empty() && *overrun > 0 {
                    // the ignored bits are part of the padding, which is zero
                    let keep = 8 - (*overrun).min(8) as u32;
                    *last &= if keep == 0 { 0 } else { 0xffu8 << (8 - keep) };
                }
            }
            for _ in 0..fill {
                out.push(0);
            }
        }
        Fci::Fir(list) => {
            for (ssrc, seq) in Fci::fir_final(list) {
                be32(&mut out, ssrc);
                out.push(seq);
                out.extend_from_slice(&[0, 0, 0]);
            }
        }
    }
    out
}

/// Alternative RPSI image when the whole last byte is ignored (8 ignored bits):
/// the minimal encoding drops that byte. Returns None when not applicable.
pub fn rpsi_minimal_alt(pt: u8, bits: &[u8], overrun: u8) -> Option<Vec<u8>> {
    if overrun == 8 && !bits.is_empty() {
        Some(fci_bytes(&Fci::Rpsi { pt, bits: bits[..bits.len() - 1].to_vec(), overrun: 0 }))
    } else {
        None
    }
}

/// Raw feedback packet around arbitrary FCI bytes (used by C15/C13 to present
/// control information the builders would never produce).
pub fn feedback_raw(pt: u8, fmt: u8, sender: u32, media: u32, fci: &[u8], padding: u8) -> Vec<u8> {
    let mut out = begin(fmt, pt);
    be32(&mut out, sender);
    be32(&mut out, media);
    out.extend_from_slice(fci);
    zero_fill_to_word(&mut out);
    finish(out, padding)
}

/// Raw packet with an arbitrary type and body (body must be word aligned).
pub fn raw_packet(pt: u8, count: u8, body: &[u8], padding: u8) -> Vec<u8> {
    let mut out = begin(count, pt);
    out.extend_from_slice(body);
    finish(out, padding)
}

/// The RFC image of a single (non-compound) configuration, ignoring validity.
fn enc_one(cfg: &Cfg) -> Vec<u8> {
    match cfg {
        Cfg::Sr { ssrc, ntp, rtp, pc, oc, blocks, padding } => {
            let mut out = begin(blocks.len() as u8, PT_SR);
            be32(&mut out, *ssrc);
            be64(&mut out, *ntp);
            be32(&mut out, *rtp);
            be32(&mut out, *pc);
            be32(&mut out, *oc);
            for b in blocks {
                report_block(&mut out, b);
            }
            finish(out, *padding)
        }
        Cfg::Rr { ssrc, blocks, padding } => {
            let mut out = begin(blocks.len() as u8, PT_RR);
            be32(&mut out, *ssrc);
            for b in blocks {
                report_block(&mut out, b);
            }
            finish(out, *padding)
        }
        Cfg::Sdes { chunks, padding } => {
            let mut out = begin(chunks.len() as u8, PT_SDES);
            for c in chunks {
                sdes_chunk(&mut out, c);
            }
            finish(out, *padding)
        }
        Cfg::Bye { sources, reason, padding } => {
            let mut out = begin(sources.len() as u8, PT_BYE);
            for s in sources {
                be32(&mut out, *s);
            }
            if !reason.is_empty() {
                out.push(reason.len() as u8);
                out.extend_from_slice(reason.as_bytes());
                zero_fill_to_word(&mut out);
            }
            finish(out, *padding)
        }
        Cfg::App { ssrc, subtype, name, data, padding } => {
            let mut out = begin(*subtype, PT_APP);
            be32(&mut out, *ssrc);
            let mut n = name.as_bytes().to_vec();
            n.resize(4, 0);
            out.extend_from_slice(&n);
            out.extend_from_slice(data);
            finish(out, *padding)
        }
        Cfg::Fb { kind, sender, media, fci, padding } => {
            let pt = if *kind == FbKind::Transport { PT_RTPFB } else { PT_PSFB };
            feedback_raw(pt, fci.format(), *sender, *media, &fci_bytes(fci), *padding)
        }
        Cfg::Unknown { pt, count, data, padding } => raw_packet(*pt, *count, data, *padding),
        Cfg::Custom { pt, count, body, padding, .. } => raw_packet(*pt, *count, body, *padding),
        Cfg::Compound(_) => unreachable!(),
    }
}

/// RFC image of a configuration; `None` when the configuration is not
/// representable (per `repr::violations`).
pub fn enc(cfg: &Cfg) -> Option<Vec<u8>> {
    if !repr::violations(cfg).is_empty() {
        return None;
    }
    Some(enc_unchecked(cfg))
}

pub fn enc_unchecked(cfg: &Cfg) -> Vec<u8> {
    match cfg {
        Cfg::Compound(members) => {
            let mut out = vec![];
            for m in members {
                out.extend_from_slice(&enc_unchecked(m));
            }
            out
        }
        c => enc_one(c),
    }
}

/// Size of the RFC image, computed arithmetically (no allocation of huge images).
pub fn size_of(cfg: &Cfg) -> usize {
    fn w(n: usize) -> usize {
        (n + 3) / 4 * 4
    }
    match cfg {
        Cfg::Sr { blocks, padding, .. } => 28 + 24 * blocks.len() + *padding as usize,
        Cfg::Rr { blocks, padding, .. } => 8 + 24 * blocks.len() + *padding as usize,
        Cfg::Sdes { chunks, padding } => {
            4 + chunks
                .iter()
                .map(|c| {
                    w(4 + c
                        .items
                        .iter()
                        .map(|i| 2 + i.value.len() + if i.type_ == 8 { 1 + i.prefix.len() } else { 0 })
                        .sum::<usize>()
                        + 1)
                })
                .sum::<usize>()
                + *padding as usize
        }
        Cfg::Bye { sources, reason, padding } => {
            4 + 4 * sources.len() + if reason.is_empty() { 0 } else { w(1 + reason.len()) } + *padding as usize
        }
        Cfg::App { data, padding, .. } => 12 + w(data.len()) + *padding as usize,
        Cfg::Fb { fci, padding, .. } => {
            12 + match fci {
                Fci::Nack(l) => 4 * nack_words(&Fci::nack_final(l)).len(),
                Fci::Pli => 0,
                Fci::Sli(v) => 4 * v.len(),
                Fci::Rpsi { bits, .. } => w(2 + bits.len()),
                Fci::Fir(l) => 8 * Fci::fir_final(l).len(),
            } + *padding as usize
        }
        Cfg::Unknown { data, padding, .. } => 4 + w(data.len()) + *padding as usize,
        Cfg::Custom { body, padding, .. } => 4 + w(body.len()) + *padding as usize,
        Cfg::Compound(m) => m.iter().map(size_of).sum(),
    }
}
