//! Reference model, written from the RFC text (RFC 3550, 4585, 5104).
pub mod dec;
pub mod enc;
pub mod repr;
pub mod selfcheck;
