//! Representability predicate (C16): which wire-format rules does a
//! configuration violate, and which error values "name" each rule.

use super::enc::{size_of, MAX_PACKET_BYTES};
use crate::cfg::{Cfg, Fci};
use rtcp_types::RtcpWriteError as E;

#[derive(Clone, Debug, PartialEq, Eq, Hash)]
pub enum Rule {
    Padding(u8),
    AppSubtype(u8),
    UnknownCount(u8),
    TooManyBlocks(usize),
    TooManySources(usize),
    TooManyChunks(usize),
    CumulativeLost(u32),
    AppName,
    DataLen(usize),
    ReasonLen(usize),
    SdesValue(usize),
    SdesPriv { prefix: usize, value: usize },
    RpsiPayloadType,
    RpsiIgnoredBits,
    WrongFeedbackKind,
    NonLastPadding,
    /// more than 65536 32-bit words: no error variant names this rule, any error counts
    TotalSize(usize),
    /// rule of the harness's own third-party packet type (count > 31, body unaligned or below MIN)
    CustomInvalid,
}

impl Rule {
    pub fn name(&self) -> &'static str {
        match self {
            Rule::Padding(_) => "padding%4",
            Rule::AppSubtype(_) => "app-subtype>31",
            Rule::UnknownCount(_) => "unknown-count>31",
            Rule::TooManyBlocks(_) => "report-blocks>31",
            Rule::TooManySources(_) => "sources>31",
            Rule::TooManyChunks(_) => "chunks>31",
            Rule::CumulativeLost(_) => "cumulative-lost>24bit",
            Rule::AppName => "app-name",
            Rule::DataLen(_) => "payload%4",
            Rule::ReasonLen(_) => "reason>255",
            Rule::SdesValue(_) => "sdes-value>255",
            Rule::SdesPriv { .. } => "priv-prefix+value>254",
            Rule::RpsiPayloadType => "rpsi-pt>127",
            Rule::RpsiIgnoredBits => "rpsi-ignored-bits",
            Rule::WrongFeedbackKind => "fci-wrong-feedback-kind",
            Rule::NonLastPadding => "non-last-padding",
            Rule::TotalSize(_) => "total-size>65536w",
            Rule::CustomInvalid => "custom-invalid",
        }
    }

    /// Does error `e` name this rule, with the offending value? (`max` fields are not compared.)
    pub fn named_by(&self, e: &E) -> bool {
        match (self, e) {
            (Rule::Padding(p), E::InvalidPadding { padding }) => padding == p,
            (Rule::AppSubtype(s), E::AppSubtypeOutOfRange { subtype, .. }) => subtype == s,
            (Rule::UnknownCount(c), E::CountOutOfRange { count, .. }) => count == c,
            (Rule::TooManyBlocks(n), E::TooManyReportBlocks { count, .. }) => count == n,
            (Rule::TooManySources(n), E::TooManySources { count, .. }) => count == n,
            (Rule::TooManyChunks(n), E::TooManySdesChunks { count, .. }) => count == n,
            (Rule::CumulativeLost(v), E::CumulativeLostTooLarge { value, .. }) => value == v,
            (Rule::AppName, E::InvalidName) => true,
            (Rule::DataLen(l), E::DataLen32bitMultiple(len)) => len == l,
            (Rule::ReasonLen(l), E::ReasonLenTooLarge { len, .. }) => len == l,
            (Rule::SdesValue(l), E::SdesValueTooLarge { len, .. }) => len == l,
            (Rule::SdesPriv { prefix, .. }, E::SdesPrivPrefixTooLarge { len, .. }) => len == prefix,
            (Rule::SdesPriv { value, .. }, E::SdesValueTooLarge { len, .. }) => len == value,
            (Rule::RpsiPayloadType, E::PayloadTypeInvalid) => true,
            (Rule::RpsiIgnoredBits, E::PaddingBitsTooLarge) => true,
            (Rule::WrongFeedbackKind, E::FciWrongFeedbackPacketType) => true,
            (Rule::NonLastPadding, E::NonLastCompoundPacketPadding) => true,
            (Rule::TotalSize(_), _) => true,
            // the harness's own writer reports its own rule through DataLen32bitMultiple/CountOutOfRange
            (Rule::CustomInvalid, E::DataLen32bitMultiple(_)) => true,
            (Rule::CustomInvalid, E::CountOutOfRange { .. }) => true,
            _ => false,
        }
    }
}

/// All rules violated by `cfg` (empty ⇔ representable).
pub fn violations(cfg: &Cfg) -> Vec<Rule> {
    let mut v = vec![];
    collect(cfg, &mut v);
    v
}

fn pad_rule(p: u8, v: &mut Vec<Rule>) {
    if p % 4 != 0 {
        v.push(Rule::Padding(p));
    }
}

fn collect(cfg: &Cfg, v: &mut Vec<Rule>) {
    match cfg {
        Cfg::Sr { blocks, padding, .. } | Cfg::Rr { blocks, padding, .. } => {
            pad_rule(*padding, v);
            if blocks.len() > 31 {
                v.push(Rule::TooManyBlocks(blocks.len()));
            }
            for b in blocks {
                if b.cumulative > 0xff_ffff {
                    v.push(Rule::CumulativeLost(b.cumulative));
                }
            }
        }
        Cfg::Sdes { chunks, padding } => {
            pad_rule(*padding, v);
            if chunks.len() > 31 {
                v.push(Rule::TooManyChunks(chunks.len()));
            }
            for c in chunks {
                for i in &c.items {
                    if i.type_ == 8 {
                        if i.prefix.len() + i.value.len() > 254 {
                            v.push(Rule::SdesPriv { prefix: i.prefix.len(), value: i.value.len() });
                        }
                    } else if i.value.len() > 255 {
                        v.push(Rule::SdesValue(i.value.len()));
                    }
                }
            }
        }
        Cfg::Bye { sources, reason, padding } => {
            pad_rule(*padding, v);
            if sources.len() > 31 {
                v.push(Rule::TooManySources(sources.len()));
            }
            if reason.len() > 255 {
                v.push(Rule::ReasonLen(reason.len()));
            }
        }
        Cfg::App { subtype, name, data, padding, .. } => {
            pad_rule(*padding, v);
            if *subtype > 31 {
                v.push(Rule::AppSubtype(*subtype));
            }
            if name.len() > 4 || !name.is_ascii() {
                v.push(Rule::AppName);
            }
            if data.len() % 4 != 0 {
                v.push(Rule::DataLen(data.len()));
            }
        }
        Cfg::Fb { kind, fci, padding, .. } => {
            pad_rule(*padding, v);
            if fci.home() != *kind {
                v.push(Rule::WrongFeedbackKind);
            }
            if let Fci::Rpsi { pt, bits, overrun } = fci {
                if *pt > 127 {
                    v.push(Rule::RpsiPayloadType);
                }
                if *overrun > 8 || (bits.is_empty() && *overrun > 0) {
                    v.push(Rule::RpsiIgnoredBits);
                }
            }
        }
        Cfg::Unknown { count, data, padding, .. } => {
            pad_rule(*padding, v);
            if *count > 31 {
                v.push(Rule::UnknownCount(*count));
            }
            if data.len() % 4 != 0 {
                v.push(Rule::DataLen(data.len()));
            }
        }
        Cfg::Custom { min, count, body, padding, .. } => {
            pad_rule(*padding, v);
            if *count > 31 || body.len() % 4 != 0 || 4 + body.len() < *min {
                v.push(Rule::CustomInvalid);
            }
        }
        Cfg::Compound(members) => {
            let last = members.len().saturating_sub(1);
            for (i, m) in members.iter().enumerate() {
                collect(m, v);
                if i != last && m.padding() > 0 {
                    v.push(Rule::NonLastPadding);
                }
            }
            return; // a compound is a datagram, not a packet: no 65536-word limit of its own
        }
    }
    let n = size_of(cfg);
    if n > MAX_PACKET_BYTES {
        v.push(Rule::TotalSize(n));
    }
}
