pub mod bytes;
pub mod cfgs;
