//! Hostile byte-string workloads.

use crate::gen::cfgs::{self, Mix};
use crate::model::enc;
use crate::source::Src;

pub const PTS_OF_INTEREST: [u8; 11] = [200, 201, 202, 203, 204, 205, 206, 0, 192, 207, 255];

fn fill_body(kind: usize, v: &mut Vec<u8>, n: usize) {
    for i in 0..n {
        v.push(match kind {
            0 => 0,
            1 => 0xff,
            2 => (i as u8).wrapping_mul(7).wrapping_add(1),
            _ => [1u8, 2, b'a', b'b', 0, 0, 8, 3][i % 8],
        });
    }
}

/// (a) Exhaustive header space: every first byte × PT set × length field
/// 0..=12 × actual length 0..=52 × 4 body fills; when the P bit is set the
/// last byte is additionally swept over interesting padding counts.
/// `stride` > 1 thins the first-byte dimension deterministically (quick tier).
pub fn header_space(shard: usize, nshards: usize, stride: usize, f: &mut dyn FnMut(&[u8])) -> u64 {
    let mut n = 0u64;
    let mut v = Vec::with_capacity(64);
    for b0 in (0..=255usize).filter(|b| b % nshards == shard) {
        if stride > 1 && (b0 / nshards) % stride != 0 && !matches!(b0 >> 6, 2) {
            // always keep every version-2 first byte; thin the others
            continue;
        }
        for &pt in &PTS_OF_INTEREST {
            for lf in 0..=12u16 {
                for len in 0..=52usize {
                    for fill in 0..4 {
                        v.clear();
                        if len >= 1 {
                            v.push(b0 as u8);
                        }
                        if len >= 2 {
                            v.push(pt);
                        }
                        if len >= 3 {
                            v.push((lf >> 8) as u8);
                        }
                        if len >= 4 {
                            v.push(lf as u8);
                            fill_body(fill, &mut v, len - 4);
                        }
                        f(&v);
                        n += 1;
                        if len >= 8 && b0 & 0x20 != 0 && fill == 0 {
                            let body = len - 4;
                            for last in [1usize, 3, 4, 8, body.saturating_sub(1), body, body + 1, body + 4, len, 255] {
                                let l = v.len();
                                v[l - 1] = last as u8;
                                f(&v);
                                n += 1;
                            }
                        }
                    }
                }
            }
        }
    }
    n
}

/// `n` strings drawn directly from the header space of `header_space` (for the interpreter tiers,
/// where enumerating the space just to thin it costs more than the checks themselves).
pub fn header_space_sample(s: &mut Src, n: usize, f: &mut dyn FnMut(&[u8])) {
    let mut v = Vec::with_capacity(64);
    for _ in 0..n {
        let b0 = if s.chance(2, 3) { 0x80 | s.below(64) as u8 } else { s.u8() };
        let pt = s.pick(&PTS_OF_INTEREST);
        let lf = s.below(13) as u16;
        let len = if s.chance(1, 2) { (4 * (lf as usize + 1)).min(52) } else { s.below(53) };
        let fill = s.below(4);
        v.clear();
        if len >= 1 {
            v.push(b0);
        }
        if len >= 2 {
            v.push(pt);
        }
        if len >= 3 {
            v.push((lf >> 8) as u8);
        }
        if len >= 4 {
            v.push(lf as u8);
            fill_body(fill, &mut v, len - 4);
        }
        if len >= 8 && b0 & 0x20 != 0 && s.chance(1, 2) {
            let body = len - 4;
            let last = s.pick(&[1usize, 3, 4, 8, body.saturating_sub(1), body, body + 1, body + 4, len, 255]);
            let l = v.len();
            v[l - 1] = last as u8;
        }
        f(&v);
    }
}

/// Mutate a (typically valid) packet or compound in place.
pub fn mutate(s: &mut Src, v: &mut Vec<u8>) {
    let n_ops = s.range(1, 3);
    for _ in 0..n_ops {
        if v.is_empty() {
            v.push(s.u8());
            continue;
        }
        match s.below(16) {
            0 => {
                let i = s.below(v.len());
                v[i] ^= 1 << s.below(8);
            }
            1 => {
                let k = s.range(1, 7).min(v.len());
                v.truncate(v.len() - k);
            }
            2 => {
                for _ in 0..s.range(1, 7) {
                    v.push(s.u8());
                }
            }
            3 if v.len() >= 4 => {
                // length field +- k
                let l = u16::from_be_bytes([v[2], v[3]]);
                let d = s.range(1, 3) as u16;
                let nl = if s.chance(1, 2) { l.wrapping_add(d) } else { l.wrapping_sub(d) };
                v[2..4].copy_from_slice(&nl.to_be_bytes());
            }
            4 => {
                // set P with an interesting last byte
                v[0] |= 0x20;
                let body = v.len().saturating_sub(4);
                let last = s.pick(&[0usize, 1, 3, 4, 8, body.saturating_sub(1), body, body + 1, 255, v.len()]);
                let l = v.len();
                v[l - 1] = last as u8;
            }
            5 => {
                // count +-
                let c = v[0] & 0x1f;
                let nc = if s.chance(1, 2) { c.wrapping_add(1) } else { c.wrapping_sub(1) } & 0x1f;
                v[0] = (v[0] & 0xe0) | nc;
            }
            6 if v.len() >= 2 => {
                v[1] = s.pick(&PTS_OF_INTEREST);
            }
            7 => {
                // inflate a byte that might be an item length / prefix length
                let i = s.below(v.len());
                v[i] = v[i].wrapping_add(s.range(1, 5) as u8);
            }
            8 => {
                // zero injection
                let i = s.below(v.len());
                let k = s.range(1, 4).min(v.len() - i);
                for x in &mut v[i..i + k] {
                    *x = 0;
                }
            }
            9 => {
                // fix up the length field so that deep code is reached
                fix_len(v);
            }
            10 => {
                let i = s.below(v.len());
                v[i] = s.u8();
            }
            11 => {
                // version change
                v[0] = (v[0] & 0x3f) | ((s.below(4) as u8) << 6);
            }
            12 => {
                // insert bytes in the middle
                let i = s.below(v.len() + 1);
                let k = s.pick(&[1usize, 2, 3, 4, 8]);
                for _ in 0..k {
                    v.insert(i, s.u8());
                }
            }
            13 => {
                // remove bytes from the middle
                let i = s.below(v.len());
                let k = s.pick(&[1usize, 2, 3, 4]).min(v.len() - i);
                v.drain(i..i + k);
            }
            14 => {
                v[0] &= !0x20;
            }
            _ => {
                let i = s.below(v.len());
                v[i] = s.pick(&[0u8, 1, 2, 8, 0xff, 0x80, 3, 4]);
            }
        }
    }
}

/// Make the first packet's length field agree with the buffer length (when possible).
pub fn fix_len(v: &mut Vec<u8>) {
    while v.len() % 4 != 0 {
        v.push(0);
    }
    if v.len() >= 4 && v.len() <= enc::MAX_PACKET_BYTES {
        let w = (v.len() / 4 - 1) as u16;
        v[2..4].copy_from_slice(&w.to_be_bytes());
    }
}

/// (c) Random body under a fixed-up valid header of the given type.
pub fn random_under_header(s: &mut Src, pt: u8) -> Vec<u8> {
    let words = match s.below(8) {
        0 => 0,
        1..=4 => s.range(1, 10),
        5..=6 => s.range(11, 40),
        _ => s.range(41, 300),
    };
    let mut v = vec![0x80 | (s.u8() & 0x3f), pt, 0, 0];
    let body = match s.below(4) {
        0 => {
            // small alphabet: makes SDES / BYE / FCI structure likely
            (0..4 * words).map(|_| s.pick(&[0u8, 0, 1, 2, 3, 4, 8, b'x', 0xff])).collect::<Vec<u8>>()
        }
        _ => s.fill(4 * words),
    };
    v.extend_from_slice(&body);
    fix_len(&mut v);
    if v[0] & 0x20 != 0 {
        let l = v.len();
        let body = l - 4;
        v[l - 1] = match s.below(6) {
            0 => s.u8().max(1),
            1 => 4,
            2 => (body as u8).max(1),
            3 => (body.saturating_sub(4) as u8).max(1),
            4 => ((body + 4).min(255) as u8).max(1),
            _ => (4 * s.range(1, 20)) as u8,
        };
    }
    // bias the count towards consistency for the types that check it
    if s.chance(1, 2) {
        let body = v.len() - 4;
        let c = match pt {
            200 => body.saturating_sub(24) / 24,
            201 => body.saturating_sub(4) / 24,
            203 => (body / 4).min(31).saturating_sub(s.below(3)),
            _ => (v[0] & 0x1f) as usize,
        };
        v[0] = (v[0] & 0xe0) | (c.min(31) as u8);
    }
    v
}

/// A model-encoded valid packet of a random kind.
pub fn valid_packet(s: &mut Src) -> Vec<u8> {
    loop {
        let c = cfgs::leaf(s, Mix::Valid);
        if let Some(b) = enc::enc(&c) {
            if b.len() <= 4096 || s.chance(1, 16) {
                return b;
            }
        }
    }
}

pub fn valid_packet_of(s: &mut Src, kind: &str) -> Vec<u8> {
    loop {
        let c = cfgs::of_kind(s, kind, Mix::Valid, 0);
        if let Some(b) = enc::enc(&c) {
            return b;
        }
    }
}

/// A model-encoded compound of 1..=6 packets (padding only on the last).
pub fn valid_compound(s: &mut Src) -> Vec<u8> {
    let n = s.range(1, 6);
    let mut out = vec![];
    for i in 0..n {
        let mut c = cfgs::leaf(s, Mix::Valid);
        if i + 1 != n {
            c.set_padding(0);
        }
        if let Some(b) = enc::enc(&c) {
            if b.len() <= 2048 {
                out.extend_from_slice(&b);
            }
        }
    }
    if out.is_empty() {
        out = vec![0x80, 201, 0, 1, 0, 0, 0, 1];
    }
    out
}

/// One hostile string from the seeded mix (b)+(c)+(splice).
pub fn hostile(s: &mut Src) -> Vec<u8> {
    match s.below(10) {
        0..=3 => {
            let mut v = valid_packet(s);
            mutate(s, &mut v);
            v
        }
        4 => {
            let mut v = valid_compound(s);
            mutate(s, &mut v);
            v
        }
        5..=7 => {
            let pt = s.pick(&PTS_OF_INTEREST);
            random_under_header(s, pt)
        }
        8 => {
            // splice of two packets, the cut not necessarily on a packet boundary
            let a = valid_packet(s);
            let b = valid_packet(s);
            let i = s.below(a.len() + 1);
            let j = s.below(b.len() + 1);
            let mut v = a[..i].to_vec();
            v.extend_from_slice(&b[j..]);
            if s.chance(1, 2) {
                fix_len(&mut v);
            }
            v
        }
        _ => {
            let n = s.range(0, 40);
            s.fill(n)
        }
    }
}

/// (d) Large inputs (> 64 KiB), deterministic.
pub fn large_inputs(f: &mut dyn FnMut(&[u8])) {
    // a 70 000 byte blob with a plausible header per type
    for &pt in &PTS_OF_INTEREST {
        let mut v = vec![0x80u8 | 1, pt, 0, 0];
        v.resize(70_000, 0x41);
        fix_len(&mut v);
        f(&v);
        v[0] |= 0x20;
        let l = v.len();
        v[l - 1] = 200;
        f(&v);
    }
    // the largest packet (65536 words) and one word more
    for &pt in &PTS_OF_INTEREST {
        for total in [262_144usize, 262_148] {
            let mut v = vec![0x80u8, pt, 0xff, 0xff];
            v.resize(total, 0);
            f(&v);
            let mut w = vec![0x80u8 | 2, pt, 0xff, 0xff];
            w.resize(total, 0x01);
            f(&w);
        }
    }
    // compound of 20 000 four-byte packets (empty BYE / empty SDES / unknown)
    let mut v = Vec::with_capacity(80_000);
    for i in 0..20_000 {
        let pt = [203u8, 202, 199][i % 3];
        v.extend_from_slice(&[0x80, pt, 0, 0]);
    }
    f(&v);
    // same, with a broken tile near the end
    let l = v.len();
    v[l - 8] = 0x40;
    f(&v);
}

/// (d2) Every (length octet, prefix-length octet) pair of a PRIV item, in an otherwise well-formed
/// one-chunk SDES packet that contains all the bytes the length octet promises (65 536 packets).
pub fn sdes_priv_pairs(shard: usize, nshards: usize, f: &mut dyn FnMut(&[u8])) -> u64 {
    let mut n = 0;
    let mut v: Vec<u8> = Vec::with_capacity(280);
    for l in 0..=255usize {
        for p in 0..=255usize {
            if (l * 256 + p) % nshards != shard {
                continue;
            }
            sdes_priv_packet(&mut v, l, p);
            f(&v);
            n += 1;
        }
    }
    n
}

/// One-chunk SDES packet holding a PRIV item with length octet `l` whose first body octet (the
/// prefix length) is `p`, all `l` body octets present, terminated and filled.
pub fn sdes_priv_packet(v: &mut Vec<u8>, l: usize, p: usize) {
    v.clear();
    v.extend_from_slice(&[0x81, 202, 0, 0, 0x10, 0x20, 0x30, 0x40, 8, l as u8]);
    for k in 0..l {
        v.push(if k == 0 { p as u8 } else { b'a' + (k % 23) as u8 });
    }
    v.push(0);
    while v.len() % 4 != 0 {
        v.push(0);
    }
    fix_len(v);
}

/// (d3) Inputs defined by a relation rather than by one field: datagrams with more than 65 535 tiles,
/// inputs longer than the largest packet (65 536 words) under every kind of length field, including
/// the one that equals the real word count modulo 2^16.
pub fn relational_inputs(shard: usize, nshards: usize, f: &mut dyn FnMut(&[u8])) -> u64 {
    let mut n = 0u64;
    let mut k = 0usize;
    let mut mine = || {
        k += 1;
        k % nshards == shard
    };
    for tiles in [65_535usize, 65_536, 65_537, 70_000] {
        if mine() {
            let mut v = Vec::with_capacity(tiles * 4);
            for i in 0..tiles {
                v.extend_from_slice(&[0x80, [203u8, 202, 199][i % 3], 0, 0]);
            }
            f(&v);
            n += 1;
        }
    }
    // the largest packet there is: exactly 65 536 words under the length field 0xffff (and one word less under 0xfffe),
    // count 0 and 1, zero body (arithmetic done on the length field itself, `field + 1` in 16 bits, shows only here)
    for (len, field) in [(262_144usize, 0xffffu16), (262_140, 0xfffe)] {
        for &pt in &PTS_OF_INTEREST {
            for count in [0u8, 1] {
                if !mine() {
                    continue;
                }
                let mut v = vec![0u8; len];
                v[0] = 0x80 | count;
                v[1] = pt;
                v[2..4].copy_from_slice(&field.to_be_bytes());
                f(&v);
                n += 1;
            }
        }
    }
    // every length field whose low octet is 0x00 or 0xff (where a carry between the two octets of the field happens or
    // does not), as a well-framed packet of exactly that length: an unknown type and an APP packet
    for hi in 0..=255usize {
        for lo in [0x00usize, 0xff] {
            let field = hi << 8 | lo;
            let len = 4 * (field + 1);
            for pt in [199u8, 204] {
                if !mine() {
                    continue;
                }
                if len < 12 && pt == 204 {
                    continue;
                }
                let mut v = vec![0u8; len];
                v[0] = 0x80 | 3;
                v[1] = pt;
                v[2..4].copy_from_slice(&(field as u16).to_be_bytes());
                if pt == 204 {
                    v[8..12].copy_from_slice(b"carr");
                }
                f(&v);
                n += 1;
            }
        }
    }
    for len in [262_148usize, 262_152, 263_316, 525_460] {
        for &pt in &PTS_OF_INTEREST {
            for field in [0u16, 1, 6, 0x0123, 0xfffe, 0xffff, ((len / 4 - 1) & 0xffff) as u16] {
                if !mine() {
                    continue;
                }
                let mut v = vec![0u8; len];
                v[0] = 0x80 | 1;
                v[1] = pt;
                v[2..4].copy_from_slice(&field.to_be_bytes());
                f(&v);
                n += 1;
            }
        }
    }
    n
}

/// (e) Exhaustive SDES bodies of `words` 32-bit words over the alphabet {0,1,2,8}
/// (optionally behind an SSRC prefix word), with SC in `scs`, without padding and with a
/// 4-byte and an 8-byte padding trailer.
pub fn sdes_small_alphabet(words: usize, shard: usize, nshards: usize, f: &mut dyn FnMut(&[u8])) -> u64 {
    sdes_small_alphabet_over([0, 1, 2, 8], words, shard, nshards, f)
}

/// The same enumeration over another 4-letter alphabet (e.g. {0,1,4,6}: item lengths that end
/// exactly at the end of a 4-byte padding trailer).
pub fn sdes_small_alphabet_over(
    alpha: [u8; 4],
    words: usize,
    shard: usize,
    nshards: usize,
    f: &mut dyn FnMut(&[u8]),
) -> u64 {
    #[allow(non_snake_case)]
    let ALPHA = alpha;
    let nbytes = 4 * words;
    let total: u64 = 1u64 << (2 * nbytes);
    let mut n = 0;
    let prefixes: [&[u8]; 3] = [&[], &[0x11, 0x22, 0x33, 0x44], &[0, 0, 0, 1]];
    let mut idx = shard as u64;
    let mut v: Vec<u8> = Vec::with_capacity(32);
    while idx < total {
        for (pi, pre) in prefixes.iter().enumerate() {
            for padded in [0usize, 4, 8] {
                v.clear();
                v.extend_from_slice(&[0x80, 202, 0, 0]);
                v.extend_from_slice(pre);
                let mut x = idx;
                for _ in 0..nbytes {
                    v.push(ALPHA[(x & 3) as usize]);
                    x >>= 2;
                }
                if padded > 0 {
                    v.extend(std::iter::repeat(0).take(padded - 1));
                    v.push(padded as u8);
                    v[0] |= 0x20;
                }
                let w = (v.len() / 4 - 1) as u16;
                v[2..4].copy_from_slice(&w.to_be_bytes());
                // SC: the plausible chunk counts
                let max_sc = (words + pi.min(1)).min(3) as u8;
                for sc in 0..=max_sc {
                    v[0] = (v[0] & 0xe0) | sc;
                    f(&v);
                    n += 1;
                }
            }
        }
        idx += nshards as u64;
    }
    n
}
