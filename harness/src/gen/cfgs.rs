//! Generators of abstract builder configurations.

use crate::cfg::*;
use crate::custom::{MINS, PTS};
use crate::source::Src;

#[derive(Clone, Copy, PartialEq, Eq, Debug)]
pub enum Mix {
    /// every rule satisfied (used by round-trip / layout monitors)
    Valid,
    /// limits approached from both sides, several rules possibly violated at once
    Limit,
}

pub const KINDS: [&str; 17] = [
    "sr", "rr", "sdes", "bye", "app", "tfb-nack", "pfb-pli", "pfb-sli", "pfb-rpsi", "pfb-fir", "unknown", "custom",
    "compound", "tfb-pli", "pfb-nack", "tfb-rpsi", "tfb-fir",
];
/// kinds whose FCI sits in its home feedback kind (valid pairings), plus the rest
pub const VALID_KINDS: [&str; 13] = [
    "sr", "rr", "sdes", "bye", "app", "tfb-nack", "pfb-pli", "pfb-sli", "pfb-rpsi", "pfb-fir", "unknown", "custom",
    "compound",
];

pub fn padding(s: &mut Src, mix: Mix) -> u8 {
    match s.below(10) {
        0..=3 => 0,
        4 => 4,
        5 => 252,
        6 => 8,
        7 | 8 => 4 * s.range(1, 63) as u8,
        _ => {
            if mix == Mix::Limit {
                s.u8()
            } else {
                4 * s.range(0, 63) as u8
            }
        }
    }
}

/// A valid UTF-8 string of exactly `n` bytes (ASCII, NULs and multi-byte characters mixed).
pub fn string_of(s: &mut Src, n: usize) -> String {
    let mut out = String::with_capacity(n);
    let style = s.below(4);
    while out.len() < n {
        let room = n - out.len();
        let c = match (style, s.below(8)) {
            (0, _) => (b'a' + s.below(26) as u8) as char,
            (_, 0) if room >= 2 => ['é', 'ß', 'Ω', 'ю'][s.below(4)],
            (_, 1) if room >= 3 => ['€', '日', '本', '✓'][s.below(4)],
            (_, 2) if room >= 4 => ['😀', '𝄞', '🦀'][s.below(3)],
            (2, 3) => '\0',
            (3, _) => (0x20 + s.below(0x5f) as u8) as char,
            _ => (b'A' + s.below(26) as u8) as char,
        };
        out.push(c);
    }
    debug_assert_eq!(out.len(), n);
    out
}

fn small_len(s: &mut Src) -> usize {
    match s.below(10) {
        0 => 0,
        1..=5 => s.range(1, 9),
        6..=7 => s.range(10, 40),
        8 => s.range(41, 255),
        _ => s.pick(&[253usize, 254, 255, 3, 4, 5]),
    }
}

pub fn rb(s: &mut Src, mix: Mix) -> Rb {
    let cumulative = match s.below(8) {
        0 => 0,
        1 => 0xff_ffff,
        2 => 1,
        3 if mix == Mix::Limit => s.pick(&[0x100_0000u32, 0xffff_ffff, 0x8000_0000, 0x1ff_ffff, 0xff80_0000, 0xff7f_ffff, 0xffff_fffe, 0xff00_0000]),
        4 if mix == Mix::Limit => s.u32(),
        _ => s.u32() & 0xff_ffff,
    };
    Rb {
        ssrc: s.u32_edgy(),
        fraction: if s.chance(1, 2) { s.pick(&[0u8, 0xff, 1, 0x80, 0x7f, 0x55]) } else { s.u8() },
        cumulative,
        ext_seq: s.u32_edgy(),
        jitter: s.u32_edgy(),
        lsr: s.u32_edgy(),
        dlsr: s.u32_edgy(),
    }
}

fn n_list(s: &mut Src, mix: Mix) -> usize {
    match s.below(12) {
        0 => 0,
        1..=5 => s.range(1, 3),
        6..=7 => s.range(4, 12),
        8 => s.range(13, 30),
        9 => 31,
        _ => {
            if mix == Mix::Limit {
                s.pick(&[32usize, 33, 31, 40])
            } else {
                s.range(0, 31)
            }
        }
    }
}

pub fn sr(s: &mut Src, mix: Mix) -> Cfg {
    let n = n_list(s, mix);
    Cfg::Sr {
        ssrc: s.u32_edgy(),
        ntp: if s.chance(1, 4) { s.pick(&[0u64, u64::MAX, 1 << 63, 0xffff_ffff, 1 << 32]) } else { s.u64() },
        rtp: s.u32_edgy(),
        pc: s.u32_edgy(),
        oc: s.u32_edgy(),
        blocks: (0..n).map(|_| rb(s, mix)).collect(),
        padding: padding(s, mix),
    }
}

pub fn rr(s: &mut Src, mix: Mix) -> Cfg {
    let n = n_list(s, mix);
    Cfg::Rr { ssrc: s.u32_edgy(), blocks: (0..n).map(|_| rb(s, mix)).collect(), padding: padding(s, mix) }
}

pub fn item(s: &mut Src, mix: Mix) -> Item {
    let type_ = match s.below(8) {
        0..=2 => 8,
        3 => 1,
        4 => s.range(2, 7) as u8,
        5 => s.range(9, 255) as u8,
        _ => s.range(1, 8) as u8,
    };
    if type_ == 8 {
        let (p, v) = match s.below(8) {
            0 => (0, small_len(s).min(254)),
            1 => {
                let p = s.range(0, 254);
                (p, 254 - p)
            }
            2 if mix == Mix::Limit => {
                let p = s.range(0, 255);
                (p, 255 - p)
            }
            3 if mix == Mix::Limit => (s.pick(&[254usize, 255, 256, 300]), s.range(0, 2)),
            4 if mix == Mix::Limit => (s.range(0, 3), s.pick(&[254usize, 255, 256])),
            _ => {
                let p = small_len(s).min(120);
                (p, small_len(s).min(254 - p))
            }
        };
        Item { type_, prefix: s.fill(p), value: string_of(s, v) }
    } else {
        let v = match s.below(10) {
            0 if mix == Mix::Limit => s.pick(&[256usize, 257, 300, 255]),
            _ => small_len(s),
        };
        // a prefix on a non-PRIV item "has no effect": set one sometimes
        let prefix = if s.chance(1, 8) {
            let n = s_len3(s);
            s.fill(n)
        } else {
            vec![]
        };
        Item { type_, prefix, value: string_of(s, v) }
    }
}
fn s_len3(s: &mut Src) -> usize {
    s.range(1, 3)
}

pub fn chunk(s: &mut Src, mix: Mix) -> Chunk {
    let n = match s.below(8) {
        0 => 0,
        1..=4 => 1,
        5..=6 => 2,
        _ => s.range(3, 6),
    };
    Chunk { ssrc: s.u32_edgy(), items: (0..n).map(|_| item(s, mix)).collect() }
}

pub fn sdes(s: &mut Src, mix: Mix) -> Cfg {
    let n = match s.below(12) {
        0 => 0,
        1..=6 => s.range(1, 3),
        7..=8 => s.range(4, 8),
        9 => 31,
        _ => {
            if mix == Mix::Limit {
                s.pick(&[32usize, 33, 31])
            } else {
                s.range(0, 31)
            }
        }
    };
    Cfg::Sdes { chunks: (0..n).map(|_| chunk(s, mix)).collect(), padding: padding(s, mix) }
}

pub fn bye(s: &mut Src, mix: Mix) -> Cfg {
    let n = n_list(s, mix);
    let rl = match s.below(10) {
        0..=2 => 0,
        3 if mix == Mix::Limit => s.pick(&[256usize, 257, 300, 255]),
        _ => small_len(s),
    };
    Cfg::Bye { sources: (0..n).map(|_| s.u32_edgy()).collect(), reason: string_of(s, rl), padding: padding(s, mix) }
}

pub fn app(s: &mut Src, mix: Mix) -> Cfg {
    let name = match s.below(10) {
        0 => String::new(),
        1 => "a".into(),
        2 => "ab".into(),
        3 => "abc".into(),
        4 if mix == Mix::Limit => s.pick(&["abcde", "é", "日a", "abcdef", "ab\u{80}", "日本"]).to_string(),
        5 => s.pick(&["a\0b", "\0\0\0\0", "\0abc", "ab\0\0", "\x7f\x01\x02\x03"]).to_string(),
        _ => {
            let n = s.range(0, 4);
            (0..n).map(|_| (0x21 + s.below(0x5e) as u8) as char).collect()
        }
    };
    let subtype = match s.below(8) {
        0 => 0,
        1 => 31,
        2 if mix == Mix::Limit => s.pick(&[32u8, 33, 64, 128, 255]),
        _ => s.range(0, 31) as u8,
    };
    let dl = match s.below(10) {
        0 => 0,
        1 if mix == Mix::Limit => s.range(1, 11),
        2 => 4 * s.range(1, 256),
        _ => 4 * s.range(0, 8),
    };
    Cfg::App { ssrc: s.u32_edgy(), subtype, name, data: s.fill(dl), padding: padding(s, mix) }
}

pub fn nack_list(s: &mut Src) -> Vec<u16> {
    let mut v = vec![];
    match s.below(8) {
        0 => {
            // one run
            let start = s.u16();
            let n = s.range(1, 40) as u16;
            for i in 0..n {
                v.push(start.wrapping_add(i));
            }
        }
        1 => {
            // window-boundary gaps
            let mut x = s.u16() as u32;
            for _ in 0..s.range(1, 12) {
                v.push(x as u16);
                x += s.pick(&[15u32, 16, 17, 18, 1, 2, 33]);
                if x > 65535 {
                    break;
                }
            }
        }
        2 => {
            // touching both ends
            v.extend_from_slice(&[0, 65535]);
            for _ in 0..s.range(0, 6) {
                v.push(if s.chance(1, 2) { s.range(0, 20) as u16 } else { 65535 - s.range(0, 20) as u16 });
            }
        }
        3 => {
            for _ in 0..s.range(1, 30) {
                v.push(s.u16());
            }
        }
        4 => {
            // dense region
            let base = s.u16();
            for _ in 0..s.range(1, 200) {
                v.push(base.wrapping_add(s.range(0, 120) as u16));
            }
        }
        5 => {
            v.push(s.u16());
        }
        6 => {} // empty NACK list
        _ => {
            let n = s.range(1, 8);
            for _ in 0..n {
                let x = s.u16();
                v.push(x);
                if s.chance(1, 2) {
                    v.push(x); // duplicates: adding is idempotent
                }
                if s.chance(1, 2) {
                    v.push(x.wrapping_add(16));
                }
                if s.chance(1, 2) {
                    v.push(x.wrapping_add(17));
                }
            }
        }
    }
    s.shuffle(&mut v);
    v
}

pub fn fci(s: &mut Src, which: &str, mix: Mix) -> Fci {
    match which {
        "nack" => Fci::Nack(nack_list(s)),
        "pli" => Fci::Pli,
        "sli" => {
            let n = match s.below(8) {
                0 => 0,
                1..=5 => s.range(1, 4),
                _ => s.range(5, 60),
            };
            Fci::Sli(
                (0..n)
                    .map(|_| {
                        let f = |s: &mut Src| match s.below(4) {
                            0 => s.pick(&[0u16, 1, 0x1fff, 0x1000, 0x0fff, 0x1f, 0x20]),
                            _ => s.u16() & 0x1fff,
                        };
                        {
                            let a = f(s);
                            let b = f(s);
                            let c = if s.chance(1, 4) { s.pick(&[0u8, 0x3f, 1, 0x20]) } else { s.u8() & 0x3f };
                            (a, b, c)
                        }
                    })
                    .collect(),
            )
        }
        "rpsi" => {
            let len = match s.below(8) {
                0 => 0,
                1..=4 => s.range(1, 9),
                5..=6 => s.range(10, 64),
                _ => s.range(65, 600),
            };
            let overrun = if len == 0 {
                if mix == Mix::Limit && s.chance(1, 3) {
                    s.range(1, 9) as u8
                } else {
                    0
                }
            } else {
                match s.below(8) {
                    0 if mix == Mix::Limit => s.pick(&[9u8, 10, 16, 255]),
                    1 => 8,
                    2 => 0,
                    _ => s.range(0, 8) as u8,
                }
            };
            let pt = match s.below(8) {
                0 => 0,
                1 => 127,
                2 if mix == Mix::Limit => s.pick(&[128u8, 129, 255]),
                _ => s.range(0, 127) as u8,
            };
            Fci::Rpsi { pt, bits: s.fill(len), overrun }
        }
        "fir" => {
            let n = match s.below(8) {
                0 => 0,
                1..=5 => s.range(1, 4),
                _ => s.range(5, 60),
            };
            let mut v: Vec<(u32, u8)> = (0..n).map(|_| (s.u32_edgy(), s.u8())).collect();
            if n > 0 && s.chance(1, 3) {
                // re-add an existing SSRC with a new sequence
                let k = s.below(v.len());
                let e = (v[k].0, s.u8());
                v.push(e);
            }
            Fci::Fir(v)
        }
        _ => unreachable!("fci kind {which}"),
    }
}

pub fn fb(s: &mut Src, kind: FbKind, which: &str, mix: Mix) -> Cfg {
    Cfg::Fb { kind, sender: s.u32_edgy(), media: s.u32_edgy(), fci: fci(s, which, mix), padding: padding(s, mix) }
}

pub fn unknown(s: &mut Src, mix: Mix) -> Cfg {
    let pt = match s.below(6) {
        0 => s.pick(&[0u8, 192, 199, 207, 255, 208, 209, 195]),
        1 if mix == Mix::Limit => s.range(200, 206) as u8,
        _ => {
            let p = s.u8();
            if (200..=206).contains(&p) && mix == Mix::Valid {
                p.wrapping_add(7)
            } else {
                p
            }
        }
    };
    let count = match s.below(8) {
        0 => 0,
        1 => 31,
        2 if mix == Mix::Limit => s.pick(&[32u8, 33, 64, 255]),
        _ => s.range(0, 31) as u8,
    };
    let dl = match s.below(10) {
        0 => 0,
        1 if mix == Mix::Limit => s.range(1, 11),
        2 => 4 * s.range(1, 200),
        _ => 4 * s.range(0, 8),
    };
    Cfg::Unknown { pt, count, data: s.fill(dl), padding: padding(s, mix) }
}

pub fn custom(s: &mut Src, mix: Mix) -> Cfg {
    let pt = s.pick(&PTS);
    let min = s.pick(&MINS);
    let extra = 4 * s.range(0, 6);
    let mut bl = min - 4 + extra;
    let mut count = s.range(0, 31) as u8;
    if mix == Mix::Limit {
        match s.below(8) {
            0 => bl += s.range(1, 3),
            1 if min > 4 => bl = min - 8,
            2 => count = s.pick(&[32u8, 255]),
            _ => {}
        }
    }
    Cfg::Custom { pt, min, count, body: s.fill(bl), padding: padding(s, mix) }
}

pub fn of_kind(s: &mut Src, kind: &str, mix: Mix, depth: usize) -> Cfg {
    match kind {
        "sr" => sr(s, mix),
        "rr" => rr(s, mix),
        "sdes" => sdes(s, mix),
        "bye" => bye(s, mix),
        "app" => app(s, mix),
        "unknown" => unknown(s, mix),
        "custom" => custom(s, mix),
        "compound" => compound(s, mix, depth),
        k if k.starts_with("tfb-") => fb(s, FbKind::Transport, &k[4..], mix),
        k if k.starts_with("pfb-") => fb(s, FbKind::Payload, &k[4..], mix),
        _ => unreachable!("kind {kind}"),
    }
}

/// a single (non-compound) packet configuration of any kind
pub fn leaf(s: &mut Src, mix: Mix) -> Cfg {
    let kinds: &[&str] = if mix == Mix::Valid { &VALID_KINDS[..12] } else { &KINDS[..] };
    loop {
        let k = s.pick(kinds);
        if k != "compound" {
            return of_kind(s, k, mix, 0);
        }
    }
}

pub fn compound(s: &mut Src, mix: Mix, depth: usize) -> Cfg {
    let n = match s.below(10) {
        0 => 0,
        1..=2 => 1,
        3..=6 => s.range(2, 4),
        _ => s.range(5, 8),
    };
    let mut members = vec![];
    for i in 0..n {
        let mut m = if depth < 2 && s.chance(1, 8) { compound(s, mix, depth + 1) } else { leaf(s, mix) };
        if mix == Mix::Valid && i + 1 != n {
            // padding only on the last member
            strip_padding(&mut m);
        } else if mix == Mix::Limit && i + 1 != n && s.chance(3, 4) {
            strip_padding(&mut m);
        }
        members.push(m);
    }
    Cfg::Compound(members)
}

pub fn strip_padding(c: &mut Cfg) {
    match c {
        Cfg::Compound(m) => {
            for x in m {
                strip_padding(x)
            }
        }
        other => other.set_padding(0),
    }
}

pub fn any(s: &mut Src, mix: Mix) -> Cfg {
    let kinds: &[&str] = if mix == Mix::Valid { &VALID_KINDS[..] } else { &KINDS[..] };
    let k = s.pick(kinds);
    of_kind(s, k, mix, 0)
}

/// Valid-biased generation can still produce an unrepresentable configuration
/// (e.g. a PRIV split at the limit); callers that need validity filter with
/// `model::repr::violations`.
pub fn any_valid(s: &mut Src) -> Cfg {
    for _ in 0..50 {
        let c = any(s, Mix::Valid);
        if crate::model::repr::violations(&c).is_empty() {
            return c;
        }
    }
    Cfg::Rr { ssrc: 1, blocks: vec![], padding: 0 }
}

pub fn valid_of_kind(s: &mut Src, kind: &str) -> Cfg {
    for _ in 0..50 {
        let c = of_kind(s, kind, Mix::Valid, 0);
        if crate::model::repr::violations(&c).is_empty() {
            return c;
        }
    }
    Cfg::Rr { ssrc: 1, blocks: vec![], padding: 0 }
}
