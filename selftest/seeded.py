#!/usr/bin/env python3
"""Seeded-defect bookkeeping.

  seeded.py validate <worktree-dir> <name>   confirm a sub-agent's change independently:
        the patch applies to /repo's HEAD, the crate builds, the unedited test suite passes
        with it, the demonstration fails with it and passes without it. On success the
        triple (patch.diff, demo.rs, meta.json) is stored under /verif/seeded/<name>/.
  seeded.py detect <name> [quick|thorough] [PROP ...]
        apply /verif/seeded/<name>/patch.diff to /repo, run the owning property's check (and any
        extra properties named), record what fired, and ALWAYS undo the patch afterwards.
  seeded.py detect-all [quick|thorough]
  seeded.py table                            print the detection table (for DESIGN.md)
"""
import json
import os
import re
import shutil
import subprocess
import sys
import time

VERIF = "/verif"
REPO = "/repo"
SEEDED = os.path.join(VERIF, "seeded")


def sh(cmd, cwd=None, timeout=1800, env=None):
    p = subprocess.run(cmd, cwd=cwd, stdout=subprocess.PIPE, stderr=subprocess.STDOUT, timeout=timeout, env=env)
    return p.returncode, p.stdout.decode("utf-8", "replace")


def env_offline():
    e = dict(os.environ)
    e["CARGO_NET_OFFLINE"] = "true"
    return e


def validate(wt, name):
    patch = os.path.join(wt, "patch.diff")
    demo = os.path.join(wt, "demo.rs")
    meta = os.path.join(wt, "meta.json")
    for f in (patch, demo):
        if not os.path.exists(f):
            print("MISSING", f)
            return 1
    scratch = "/tmp/val-%s" % name
    sh(["git", "-C", REPO, "worktree", "remove", "--force", scratch])
    shutil.rmtree(scratch, ignore_errors=True)
    code, out = sh(["git", "-C", REPO, "worktree", "add", "--detach", scratch, "HEAD"])
    if code != 0:
        print(out)
        return 1
    ran = []
    try:
        code, out = sh(["git", "apply", "--check", patch], cwd=scratch)
        if code != 0:
            print("patch does not apply:", out)
            return 1
        # only src/ may be touched
        code, out = sh(["git", "apply", "--numstat", patch], cwd=scratch)
        files = [l.split("\t")[2] for l in out.strip().splitlines() if l.strip()]
        if not files or any(not f.startswith("src/") for f in files):
            print("patch touches files outside src/:", files)
            return 1
        sh(["git", "apply", patch], cwd=scratch)
        code, out = sh(["cargo", "test", "--offline"], cwd=scratch, env=env_offline())
        res = re.findall(r"test result: (\w+)\. (\d+) passed; (\d+) failed", out)
        passed = sum(int(r[1]) for r in res)
        failed = sum(int(r[2]) for r in res)
        ran.append("with patch: cargo test --offline -> exit %d, %d passed, %d failed" % (code, passed, failed))
        if code != 0 or failed or passed < 94:
            print("existing suite does not pass with the patch:\n", out[-2000:])
            return 1
        shutil.copy(demo, os.path.join(scratch, "tests", "demo.rs"))
        code_with, out_with = sh(["cargo", "test", "--offline", "--test", "demo"], cwd=scratch, env=env_offline())
        ran.append("with patch: cargo test --offline --test demo -> exit %d" % code_with)
        if code_with == 0:
            print("demonstration PASSES with the patch applied - not a demonstration")
            return 1
        if "error[E" in out_with or "could not compile" in out_with:
            print("demonstration does not compile:\n", out_with[-2000:])
            return 1
        sh(["git", "apply", "-R", patch], cwd=scratch)
        code_without, out_without = sh(["cargo", "test", "--offline", "--test", "demo"], cwd=scratch, env=env_offline())
        ran.append("without patch: cargo test --offline --test demo -> exit %d" % code_without)
        if code_without != 0:
            print("demonstration FAILS on the unmodified code:\n", out_without[-2000:])
            return 1
    finally:
        sh(["git", "-C", REPO, "worktree", "remove", "--force", scratch])
        shutil.rmtree(scratch, ignore_errors=True)
    dst = os.path.join(SEEDED, name)
    os.makedirs(dst, exist_ok=True)
    shutil.copy(patch, os.path.join(dst, "patch.diff"))
    shutil.copy(demo, os.path.join(dst, "demo.rs"))
    m = {}
    if os.path.exists(meta):
        try:
            m = json.load(open(meta))
        except Exception as ex:
            m = {"agent_meta_unreadable": str(ex)}
    m.setdefault("property", name.split("-")[0])
    m["files"] = files
    m["confirmed_by_verifier"] = ran
    m["base_commit"] = sh(["git", "-C", REPO, "rev-parse", "--short", "HEAD"])[1].strip()
    json.dump(m, open(os.path.join(dst, "meta.json"), "w"), indent=1)
    print("VALIDATED %s -> %s" % (name, dst))
    for r in ran:
        print("   ", r)
    return 0


def repo_clean():
    code, out = sh(["git", "-C", REPO, "status", "--porcelain", "--untracked-files=no"])
    return out.strip() == ""


def detect(name, tier="quick", extra_props=()):
    d = os.path.join(SEEDED, name)
    meta = json.load(open(os.path.join(d, "meta.json")))
    props = [meta["property"]] + [p for p in extra_props if p != meta["property"]]
    if not repo_clean():
        print("/repo has uncommitted changes - refusing")
        return 2
    results = {}
    try:
        code, out = sh(["git", "-C", REPO, "apply", os.path.join(d, "patch.diff")])
        if code != 0:
            print("cannot apply:", out)
            return 2
        for p in props:
            t0 = time.time()
            env = dict(os.environ)
            env.setdefault("VERIF_SKIP", "fuzz" if tier == "quick" else "")
            code, out = sh([os.path.join(VERIF, "check"), p, tier], cwd=VERIF, timeout=7200, env=env)
            sigs = re.findall(r"^\s+signature: (.*)$", out, re.M)
            results[p] = {"exit": code, "signatures": sigs, "wall_s": round(time.time() - t0, 1)}
            print("%s on %s [%s]: exit %d, %d signature(s) %s" % (p, name, tier, code, len(sigs), sigs[:4]))
    finally:
        sh(["git", "-C", REPO, "checkout", "--", "."])
    assert repo_clean()
    dj = os.path.join(d, "detection.json")
    old = {}
    if os.path.exists(dj):
        old = json.load(open(dj))
    old.setdefault(tier, {}).update(results)
    old["verif_commit"] = sh(["git", "-C", VERIF, "rev-parse", "--short", "HEAD"])[1].strip()
    json.dump(old, open(dj, "w"), indent=1)
    own = results[meta["property"]]
    return 0 if own["exit"] == 1 else 1


def table():
    notes = {}
    try:
        notes = json.load(open(os.path.join(SEEDED, "first_try_notes.json")))
    except Exception:
        pass
    rows = []
    for name in sorted(os.listdir(SEEDED)):
        d = os.path.join(SEEDED, name)
        if not os.path.isdir(d):
            continue
        meta = json.load(open(os.path.join(d, "meta.json")))
        det = {}
        if os.path.exists(os.path.join(d, "detection.json")):
            det = json.load(open(os.path.join(d, "detection.json")))
        q = det.get("quick", {})
        caught = [p for p, r in q.items() if r.get("exit") == 1]
        own = q.get(meta["property"], {})
        how = "yes" if own.get("exit") == 1 else ("NO" if own else "not run")
        if not own and os.path.exists(os.path.join(d, "matrix.json")):
            # rounds whose detection was recorded with matrix.py only (scratch worktrees, native debug tier of every quick workload)
            mr = json.load(open(os.path.join(d, "matrix.json")))["results"]
            own = mr.get(meta["property"], {})
            how = "yes (matrix run, debug tier)" if own.get("fires") else "NO (matrix run, debug tier)"
            caught = [p for p, r in mr.items() if isinstance(r, dict) and r.get("fires")]
        sigs = "; ".join(s.split("|", 1)[1] for s in own.get("signatures", [])[:2])
        rows.append((name, meta["property"], how, notes.get(name, "yes"), ",".join(c for c in sorted(caught) if c != meta["property"]) or "-", sigs.replace("|", "/"), (meta.get("summary") or "")[:150].replace("\n", " ").replace("|", "/")))
    print("| seeded change | property | caught by its quick check now | at first try | other checks run on it that fire | signatures (first two) | what it changes |")
    print("|---|---|---|---|---|---|---|")
    for r in rows:
        print("| %s | %s | %s | %s | %s | %s | %s |" % r)


def main():
    a = sys.argv[1:]
    if not a:
        print(__doc__)
        return 2
    if a[0] == "validate":
        return validate(a[1], a[2])
    if a[0] == "detect":
        tier = a[2] if len(a) > 2 and a[2] in ("quick", "thorough") else "quick"
        extra = [x for x in a[2:] if re.match(r"C\d\d$", x)]
        return detect(a[1], tier, extra)
    if a[0] == "detect-all":
        tier = a[1] if len(a) > 1 else "quick"
        worst = 0
        for name in sorted(os.listdir(SEEDED)):
            if os.path.isdir(os.path.join(SEEDED, name)):
                worst = max(worst, detect(name, tier))
        return worst
    if a[0] == "table":
        return table()
    print(__doc__)
    return 2


if __name__ == "__main__":
    sys.exit(main())
