#!/usr/bin/env python3
"""Cross-detection matrix: which property monitors fire on which seeded change.

  matrix.py run [--workers K] [--threads N] [--base B] [--dir DIR] [--owner-only] [NAME ...]
                (--dir selftest/benign: the behaviour-preserving changes, on which nothing may fire)   (all seeded changes when none named)
  matrix.py table
  matrix.py tier NAME PROP dbg|rel|asan [scale]     (ad hoc: one change, one property, one build variant; prints, records nothing)

This is self-test tooling, not a registered check. So that it can run while other work uses
/repo, it never touches /repo's working tree: each worker has a scratch git worktree of /repo
(under /tmp, removed at the end) to which the seeded patch is applied, and a scratch copy of the
harness crate whose path dependency points at that worktree. It runs the *native debug-assertion
tier only* of every property's quick workload (the registered quick checks additionally run the
release build, and C17 a Miri shard), straight through the rtcpmon binary, and records the
signatures each monitor raised in seeded/<name>/matrix.json. Signatures listed as open known
findings are ignored, as the runner does.
"""
import json
import os
import re
import shutil
import subprocess
import sys
import threading
import time

VERIF = "/verif"
REPO = "/repo"
SEEDED = os.path.join(VERIF, "seeded")
PROPS = ["C%02d" % i for i in range(1, 21)]


def sh(cmd, cwd=None, timeout=3600, env=None):
    p = subprocess.run(cmd, cwd=cwd, stdout=subprocess.PIPE, stderr=subprocess.STDOUT, timeout=timeout, env=env)
    return p.returncode, p.stdout.decode("utf-8", "replace")


def env_offline():
    e = dict(os.environ)
    e["CARGO_NET_OFFLINE"] = "true"
    return e


def open_known():
    try:
        k = json.load(open(os.path.join(VERIF, "known_findings.json")))
        return {f["signature"] for f in k.get("findings", []) if f.get("status") == "open"}
    except Exception:
        return set()


def setup_worker(k):
    root = "/tmp/mx-%d" % k
    wt = os.path.join(root, "repo")
    hz = os.path.join(root, "harness")
    sh(["git", "-C", REPO, "worktree", "remove", "--force", wt])
    shutil.rmtree(root, ignore_errors=True)
    os.makedirs(root)
    code, out = sh(["git", "-C", REPO, "worktree", "add", "--detach", wt, "HEAD"])
    if code != 0:
        raise RuntimeError(out)
    os.makedirs(hz)
    shutil.copytree(os.path.join(VERIF, "harness", "src"), os.path.join(hz, "src"))
    toml = open(os.path.join(VERIF, "harness", "Cargo.toml")).read().replace('path = "/repo"', 'path = "%s"' % wt)
    open(os.path.join(hz, "Cargo.toml"), "w").write(toml)
    shutil.copy(os.path.join(VERIF, "harness", "Cargo.lock"), os.path.join(hz, "Cargo.lock"))
    return root, wt, hz


def teardown_worker(k):
    root = "/tmp/mx-%d" % k
    sh(["git", "-C", REPO, "worktree", "remove", "--force", os.path.join(root, "repo")])
    shutil.rmtree(root, ignore_errors=True)
    sh(["git", "-C", REPO, "worktree", "prune"])


def run_one(name, root, wt, hz, threads, known, props=None):
    d = os.path.join(SEEDED, name)
    sh(["git", "checkout", "--", "."], cwd=wt)
    code, out = sh(["git", "apply", os.path.join(d, "patch.diff")], cwd=wt)
    if code != 0:
        return {"error": "patch does not apply: " + out[-300:]}
    code, out = sh(["cargo", "build", "--offline"], cwd=hz, env=env_offline())
    if code != 0:
        return {"error": "build failed: " + out[-600:]}
    binp = os.path.join(hz, "target", "debug", "rtcpmon")
    res = {}
    for p in (props or PROPS):
        t0 = time.time()
        pp = os.path.join(root, "partial.json")
        try:
            code, out = sh([binp, "run", "--prop", p, "--seed", "1", "--threads", str(threads), "--tool", "native-dbg", "--out", pp, "--replays", os.path.join(root, "replays")], cwd=root, timeout=1500)
        except subprocess.TimeoutExpired:
            res[p] = {"exit": None, "signatures": [], "note": "timeout"}
            continue
        sigs = re.findall(r"^RAW-VIOLATION property=\S+ signature=(.*?) count=\d+$", out, re.M)
        m = re.search(r"^HANG property=\S+ subject=(\S+)", out, re.M)
        if m:
            sigs.append("%s|terminates|%s|cpu-time-confirmed-hang" % (p, m.group(1)))
        m = re.search(r"^ABORT property=\S+ subject=(\S+)", out, re.M)
        if m:
            sigs.append("%s|returns-normally|%s|process-abort-in-observed-call" % (p, m.group(1)))
        sigs = [s for s in sigs if s not in known]
        note = None
        if code == 2:
            mm = re.search(r"^INCONCLUSIVE .*reason=(.*)$", out, re.M)
            note = "inconclusive: " + (mm.group(1) if mm else "exit 2")
        res[p] = {"fires": bool(sigs), "signatures": sigs[:6], "n_signatures": len(sigs), "wall_s": round(time.time() - t0, 1)}
        if note:
            res[p]["note"] = note
    shutil.rmtree(os.path.join(root, "replays"), ignore_errors=True)
    return res


def run_tier(name, prop, variant, k=9, threads=8, scale=None, seeded_dir=None):
    """Ad-hoc: one seeded change, one property, one build variant (dbg | rel | asan) of the quick workload, in a
    scratch worktree (so that /repo stays untouched). Prints what fired; records nothing."""
    root, wt, hz = setup_worker(k)
    try:
        d = os.path.join(seeded_dir or SEEDED, name)
        code, out = sh(["git", "apply", os.path.join(d, "patch.diff")], cwd=wt)
        if code != 0:
            print("patch does not apply:", out[-300:])
            return 2
        env = env_offline()
        cmd = ["cargo", "build", "--offline"]
        binp = os.path.join(hz, "target", "debug", "rtcpmon")
        extra = []
        if variant == "rel":
            cmd.append("--release")
            binp = os.path.join(hz, "target", "release", "rtcpmon")
        elif variant == "asan":
            env["RUSTFLAGS"] = "-Zsanitizer=address -Cforce-frame-pointers=yes --cfg rtcpmon_asan"
            cmd = ["cargo", "+nightly", "build", "--offline", "--target", "x86_64-unknown-linux-gnu"]
            binp = os.path.join(hz, "target", "x86_64-unknown-linux-gnu", "debug", "rtcpmon")
            env["ASAN_OPTIONS"] = "detect_leaks=0:halt_on_error=1:abort_on_error=0:exitcode=66:symbolize=1:allocator_may_return_null=1"
            env["ASAN_SYMBOLIZER_PATH"] = shutil.which("llvm-symbolizer-14") or shutil.which("llvm-symbolizer") or ""
            extra = ["--scale", scale or "0.5", "--track-cases"]
        code, out = sh(cmd, cwd=hz, env=env)
        if code != 0:
            print("build failed:", out[-800:])
            return 2
        t0 = time.time()
        code, out = sh([binp, "run", "--prop", prop, "--seed", "1", "--threads", str(threads), "--tool", "native-" + variant if variant != "asan" else "asan", "--out", os.path.join(root, "partial.json"), "--replays", os.path.join(root, "replays")] + extra, cwd=root, env=env, timeout=3000)
        sigs = re.findall(r"^RAW-VIOLATION property=\S+ signature=(.*?) count=\d+$", out, re.M)
        asan = re.findall(r"ERROR: AddressSanitizer: (\S+)", out)
        frames = [m for m in re.findall(r"#\d+ .* in (\S+) (\S+)", out) if wt in m[1]][:3]
        print("%s %s %s: exit %s, %d signature(s) %s, asan reports %s %s (%.0fs)" % (name, prop, variant, code, len(sigs), sigs[:4], asan[:2], frames, time.time() - t0))
        return 0
    finally:
        teardown_worker(k)


def run(names, workers, threads, base=0, owner_only=False):
    known = open_known()
    names = list(names)
    lock = threading.Lock()
    verif_commit = sh(["git", "-C", VERIF, "rev-parse", "--short", "HEAD"])[1].strip()

    def work(k):
        root, wt, hz = setup_worker(k)
        try:
            while True:
                with lock:
                    if not names:
                        return
                    name = names.pop(0)
                t0 = time.time()
                res = run_one(name, root, wt, hz, threads, known, [name.split("-")[0]] if owner_only else None)
                mj = os.path.join(SEEDED, name, "matrix.json")
                if owner_only and "error" not in res and os.path.exists(mj):
                    # owner-only re-run: refresh the owner's cell, keep the other cells of the last full run
                    old = json.load(open(mj)).get("results", {})
                    if "error" not in old:
                        old.update(res)
                        res = old
                json.dump({"verif_commit": verif_commit, "tier": "native debug-assertion build of each quick workload", "results": res}, open(mj, "w"), indent=1)
                fired = [p for p, r in res.items() if isinstance(r, dict) and r.get("fires")]
                print("%s: %s (%.0fs)" % (name, ",".join(fired) if fired else ("ERROR " + str(res.get("error")) if "error" in res else "nothing fires"), time.time() - t0), flush=True)
        finally:
            teardown_worker(k)

    ts = [threading.Thread(target=work, args=(base + k,)) for k in range(workers)]
    for t in ts:
        t.start()
    for t in ts:
        t.join()


def table():
    print("| seeded change | owner | monitors that fire (native debug tier of the quick workloads) |")
    print("|---|---|---|")
    tot = {}
    for name in sorted(os.listdir(SEEDED)):
        mj = os.path.join(SEEDED, name, "matrix.json")
        if not os.path.exists(mj):
            continue
        r = json.load(open(mj))["results"]
        fired = [p for p in PROPS if isinstance(r.get(p), dict) and r[p].get("fires")]
        for p in fired:
            tot[p] = tot.get(p, 0) + 1
        print("| %s | %s | %s |" % (name, name.split("-")[0], " ".join(fired) or "-"))
    print()
    print("changes each monitor fires on: " + ", ".join("%s %d" % (p, tot.get(p, 0)) for p in PROPS))


def main():
    a = sys.argv[1:]
    if not a:
        print(__doc__)
        return 2
    if a[0] == "table":
        table()
        return 0
    if a[0] == "tier":
        # matrix.py tier NAME PROP dbg|rel|asan [scale] [--dir DIR]
        sd = None
        if "--dir" in a:
            sd = os.path.abspath(a[a.index("--dir") + 1])
        return run_tier(a[1], a[2], a[3], scale=a[4] if len(a) > 4 and not a[4].startswith("--") else None, seeded_dir=sd)
    if a[0] == "run":
        workers, threads, base, owner_only = 2, 8, 0, False
        names = []
        i = 1
        while i < len(a):
            if a[i] == "--workers":
                workers = int(a[i + 1]); i += 2
            elif a[i] == "--dir":
                global SEEDED
                SEEDED = os.path.abspath(a[i + 1]); i += 2
            elif a[i] == "--owner-only":
                owner_only = True; i += 1
            elif a[i] == "--base":
                base = int(a[i + 1]); i += 2
            elif a[i] == "--threads":
                threads = int(a[i + 1]); i += 2
            else:
                names.append(a[i]); i += 1
        if not names:
            names = sorted(n for n in os.listdir(SEEDED) if os.path.isdir(os.path.join(SEEDED, n)))
        run(names, workers, threads, base, owner_only)
        return 0
    print(__doc__)
    return 2


if __name__ == "__main__":
    sys.exit(main())
