#!/usr/bin/env python3
"""Prepare a round of independently seeded breaking changes (self-test tooling, not a check).

  seed_round.py prepare <scratch-dir> <flavour-set>     e.g.  seed_round.py prepare /tmp/seed10 r10

creates, per property, a scratch git worktree of /repo at <scratch-dir>/<ID> holding a TASK.md that
contains only the text of the property, the rules for a realistic change, the one-line summaries of the
changes already seeded for it (to push the next one somewhere else) and one of three "flavours" that
rotate over the properties. A fresh sub-agent is then pointed at each TASK.md and nothing else.
Afterwards: selftest/seeded.py validate <scratch-dir>/<ID> <ID>-<letter>, remove the worktrees
(git -C /repo worktree remove --force), selftest/seeded.py detect <name> quick.
"""
import json, os, subprocess, sys

FLAVOURS = {
 "r9": [
"""Aim for a SYMMETRIC, SELF-CONSISTENT defect: change the writer AND the parser (or calculate_size AND the writer, or an accessor AND
the thing that feeds it) in matching ways, so that everything the crate does with its own output still agrees — build→parse round trips,
size vs bytes written, padded vs unpadded — and only a comparison against the RFC wire format or against the literal wording of the
property shows the problem.""",
"""Aim for a defect reachable through DERIVED or CONVENIENCE functionality: `Clone` of a builder or parsed value followed by further use,
`Default`, `From`/`Into`/`TryFrom` impls, `PartialEq`/`Eq`, builder methods that take `impl Into<..>`, `into_owned`-style conversions,
getters on builders (`get_padding`), re-using one builder for two packets, or handing the same FCI builder to two feedback packets.
The plain path must keep working.""",
"""Aim for a NEEDLE IN A HAYSTACK: the triggering cases must be a tiny fraction of the space (less than one in a million
uniformly random cases; not a single-field boundary value) — a conjunction of independent conditions, a relation between two
fields or two list entries, a data-dependent path (payload bytes that look like structure), or a specific sequence of calls.""",
 ],
 "r10": [
"""Aim for a change in SHARED code — `src/utils.rs` (check_packet, parse_* helpers, write_header_unchecked, write_padding_unchecked,
pad_to_4bytes, the *_from_be_bytes helpers), the traits and blanket/forwarding impls in `src/lib.rs`/`src/prelude.rs`, or a macro or
helper used by several packet types — made for a good-looking reason (deduplication, a micro-optimisation, hardening), whose effect
breaks THIS property for only some packet types or some inputs while every other user of the shared code keeps behaving as before.""",
"""Aim for an ARITHMETIC / TYPE-WIDTH slip of the kind a refactor introduces: a narrower or wider integer type for a length, count or
offset (`as u8`, `as u16`, `u32` vs `usize`), `wrapping_`/`saturating_`/`checked_` swapped for one another or for plain operators, a
changed order of multiply/divide/round-up, `<=` vs `<` in a loop bound computed from a length, signed vs unsigned reinterpretation,
masks and shifts that are right for every value the tests use. The defect must manifest only for values the test suite never uses
(large counts, long payloads, high bits set, lengths near a multiple of 4 or of 256 or of 65536).""",
"""Aim for an OPTIMISATION or EARLY-EXIT gone slightly wrong: a fast path for the common case, a cached or precomputed value that is
not refreshed when a later setter changes what it depends on, skipping "redundant" validation because another layer already did it
(but that layer is not on every path), stopping a scan early, reusing a buffer or an iterator, replacing an exact computation by a
cheaper bound. The common path must be bit-for-bit as before; only a less-travelled path (owned vs borrowed variant, builder wrapped in
PacketBuilder or boxed, member of a compound, second use of the same builder, parse via `Packet` vs the typed parser) differs.""",
 ],
 "r11": [
"""Aim for a defect in ERROR HANDLING: the wrong error variant or wrong `expected`/`actual` numbers where the property speaks about
errors; an error swallowed and turned into a default/empty value; `?` replaced by `unwrap_or`/`ok()`; an `Err` path that leaves a partly
written buffer or a partly advanced iterator where the property cares about that; a validation moved after the first side effect. If the
property does not mention errors, break it on an input that is *one step away* from an error (just inside the limit the validation draws).""",
"""Aim for a defect that only shows for COMBINATIONS OF FEATURES that each work alone: padding together with profile-specific
extensions, the maximum count together with an extension, a compound containing a compound, a feedback packet with zero FCI entries plus
padding, owned and borrowed variants mixed in one packet, an SDES chunk with zero items next to one with a maximum-length item, unknown
packet types next to known ones. Each feature on its own must behave exactly as before.""",
"""Aim for a change that a reviewer would WAVE THROUGH because it reads as behaviour-preserving: replacing a hand-written loop by iterator
adaptors (`zip`, `take`, `chunks`, `step_by`, `windows`, `take_while`, `filter_map`) with subtly different termination, `chunks` vs `chunks_exact`,
`split_at` vs slicing, `get(..)` + `unwrap_or_default`, `min`/`max` clamps, `copy_from_slice` of a re-sliced source, derive instead of a manual impl
(or vice versa), reordering match arms with overlapping patterns or guards.""",
 ],
 "r12": [
"""Aim for a LOW-LEVEL / `unsafe` PERFORMANCE OPTIMISATION with a plausible `// SAFETY:` comment whose stated invariant does not hold for
some inputs or configurations: `get_unchecked`, `ptr::read_unaligned`, `slice::from_raw_parts`, `from_utf8_unchecked`, `MaybeUninit` /
`Vec::with_capacity` + `set_len`, `copy_nonoverlapping`, skipping the zero-fill of bytes "that will be overwritten anyway", reading a
header field before the length check "because the caller validated it". The result must break THIS property (out-of-bounds bytes returned
as field values, bytes from outside the caller's buffer, output bytes never written, a wrong value instead of an error) for those inputs
only; everything the test suite does must stay bit-for-bit as before. Your demonstration has to fail deterministically under plain
`cargo test` (for example by parsing a sub-slice of a larger buffer the test owns, so that the stray read lands on known bytes), even
though in the field the symptom would be undefined behaviour.""",
"""Aim for a DEFENSIVE LIMIT or HARDENING that is slightly too tight: a sanity cap against denial of service (maximum number of entries,
chunks, items, tiles, iterations; maximum packet or payload size), an extra consistency check that rejects something the RFC and this
property allow, a clamp (`min`/`saturating`) that silently cuts a legal value, an iterator that gives up after N steps. Everything below
the cap must behave exactly as before; the cap must lie above anything the test suite uses but inside what the property quantifies over.""",
"""Aim for a PARTIAL REGRESSION OF A RECENT FIX: run `git log --oneline -16` and `git show <commit>` for the commits whose message starts
with "fix:". Pick one whose area matters for this property and write the follow-up commit of someone who did not fully understand it: a
clean-up, generalisation or "simplification" of the fixed code that keeps the fix's own obvious case working (and all tests passing) but
re-breaks a sub-case of it, or that moves the fix to a shared place where it now also hits a case it should not. Do not simply revert the fix.""",
 ],
 "r13": [
"""Aim for a defect visible only to THIRD-PARTY IMPLEMENTORS of the crate's public traits or to generic code written against them:
a user-defined `FciParser` / `FciBuilder` type, a user-defined `RtcpPacketWriter` / `RtcpPacketParser` (legal but unusual: zero-length
body, `get_padding()` returning `Some(0)`, minimum length larger than the header, a packet type number the crate does not know), default
trait methods, blanket impls, `Box<dyn ...>` / `&dyn ...` forwarding. The crate's own packet types must keep behaving as before wherever
the test suite looks.""",
"""Aim for a defect that needs a LONG or REPEATED CALL SEQUENCE on one object: a builder that is sized or written twice, written, then
modified, then written again; a parsed value or iterator that is cloned and the two copies advanced independently; an iterator that is
advanced, inspected (`size_hint`, `clone().count()`, `Debug`), then advanced again; a cache (`Cell`, `OnceCell`, a field filled lazily)
introduced as an optimisation that is stale on the second use. First use must be exactly as before.""",
"""Aim for a defect that depends on the SHAPE OF THE CALLER'S BUFFER rather than on the packet: output buffers much larger than needed,
exactly the size needed, or whose previous contents are not zero; input slices that are sub-slices of a larger datagram (bytes before and
after the packet that do not belong to it), that start at an odd address, or whose length is huge; packets located at a non-zero offset
inside a compound. Fresh, exact, zeroed, aligned buffers - which is what tests use - must behave as before.""",
 ],
 "r14": [
"""Aim for a COPY-PASTE / SIBLING DIVERGENCE defect: the crate has many near-identical siblings (SenderReport vs ReceiverReport,
TransportFeedback vs PayloadFeedback, the five FCI types, borrowed vs `_owned` setters, `TryFrom<Packet>` vs `TryFrom<&Packet>`, the typed
parser vs the same type reached through `Packet`/`Compound`, `SdesChunkBuilder` vs `SdesItemBuilder`). Make a plausible improvement or
refactor in ONE sibling (or factor common code out of two siblings and get one of the parameters - an offset, a constant, a minimum
length, a packet type - wrong for one of them) so that the sibling the test suite exercises for that aspect is fine and the other one
breaks THIS property. The change must read as a consistent clean-up.""",
"""Aim for a BIT-TWIDDLING / LOOKUP-TABLE / PRECOMPUTED-CONSTANT slip: replace a straightforward computation by a mask-and-shift trick,
`leading_zeros`/`trailing_zeros`/`count_ones`, `rotate`, `swap_bytes`/`from_le_bytes` vs `from_be_bytes`, `next_multiple_of`, `div_ceil`,
`(x + 3) & !3` on the wrong width, a small `const` table, or a named constant derived from another one - correct for every value the test
suite uses (small numbers, byte-symmetric or palindromic patterns, values with the top bit clear, lengths already aligned) but wrong for a
recognisable class of other values (top bit set, asymmetric bytes, exact multiples, zero, the maximum).""",
"""Aim for a defect in TEXT / BYTE-CONTENT handling: anything where the *content* of a variable-length field steers the code - UTF-8
validation or lossy conversion, `trim`/`trim_end_matches`, searching for a NUL or another delimiter (`position`, `split`, `find`) in data
that may legitimately contain it, treating an empty string as "absent", comparing names case-insensitively, values that look like item
headers, padding counts or packet headers, multi-byte characters straddling a length limit (byte length vs char count). Content made of
plain short ASCII - which is what tests use - must behave exactly as before.""",
 ],
 "r15": [
"""Aim for SILENT NORMALISATION at a setter or accessor: a builder method or getter that "helpfully" sorts, de-duplicates, merges,
truncates, clamps, rounds, strips or defaults what it was given (or an accessor that hides, skips or coalesces entries it considers
uninteresting: zero SSRCs, empty items, duplicate entries, all-zero words) instead of passing it through or rejecting it. Ordinary
inputs - already sorted, unique, in range, non-empty - must behave exactly as before.""",
"""Aim for a defect at the BOUNDARY BETWEEN TWO ADJACENT STRUCTURES: code that uses the length of the enclosing buffer/datagram where
it should use the length of its own packet (or the other way round), reads one unit into its neighbour (next packet's header, next chunk's
SSRC, the padding trailer, the profile extension after the report blocks, the reason after the BYE sources), or attributes a trailing
element to the wrong owner. Single packets in exact buffers - which is what tests use - must behave exactly as before; the defect needs a
particular neighbour (a following packet, padding, an extension, a second chunk) with particular content.""",
"""Aim for a defect in a TRAIT CONTRACT that generic code relies on: `Iterator::size_hint`/`ExactSizeIterator::len`/`nth`/`fold`/
`DoubleEndedIterator` overrides that disagree with `next()`, `Clone`d iterators or parsed values that share or lose position, `PartialEq`
that ignores or over-includes a field (padding, trailing bytes), `Debug` that panics or mis-indexes for some values, `Default`/`From`
impls that build an object violating an invariant the other methods assume, `AsRef`/`Borrow`/`Deref` exposing a different byte range than
the accessors. The hand-written loops the tests use must behave exactly as before.""",
 ],
 "r16": [
"""Aim for a RESOURCE-USE or COMPLEXITY defect that turns into a failure the property speaks about: an allocation or loop bound taken
from an untrusted or unvalidated field (`Vec::with_capacity(count)`, `vec![0; len]`, `reserve`), recursion whose depth follows the input or
the nesting of builders, an index or cursor that stops advancing for one input shape (an iterator that never finishes), a retry loop, an
accumulated size that overflows only for many entries, a "collect then index" that assumes at least one element. Ordinary packets must
behave exactly as before; the failure (panic, abort, endless iteration, wrong size) must need a specific, legal-looking input or
configuration.""",
"""Aim for a defect that shows only for DEGENERATE / EMPTY / DEFAULT objects: a builder on which nothing (or nearly nothing) was
configured, zero entries, zero-length text or payload, SSRC 0, count 0, an empty compound or an empty member inside a compound, a
header-only packet, a packet that consists of header plus padding only, the minimum legal size of each type, `Default::default()` values.
Code paths that "obviously" have at least one element (`first().unwrap()`, `len() - 1`, `last()`, division by a count, `chunks(0)`) are
the natural place. Every non-degenerate object must behave exactly as before.""",
"""Aim for a defect in the handling of RESERVED, IGNORED or DERIVED parts of the formats: reserved bits and bytes that must be written
as zero and ignored when read (FIR entry trailer, the RPSI bit before the payload type, the unused bits of the last RPSI byte, SDES fill
and terminator, the padding bytes before the padding count), fields whose value is derived from another (length field, count field,
padding bit, PRIV prefix length) and must stay consistent with it, or values that are legal but unusual in those positions (non-zero
reserved bits on input, a derived field at its maximum). Inputs and configurations with all reserved parts zero and typical derived
values - which is what tests use - must behave exactly as before.""",
 ],
 "r17": [
"""Aim for a FEATURE ADDITION whose supporting refactor changes an existing path: add a small, plausible public convenience (a bulk
setter taking an iterator, a `with_capacity`/`new_with_*` constructor, a `set_*(&mut self)` twin of a consuming setter, an extra accessor,
a `From`/`TryFrom` impl, an `impl Extend`, a `clear_*`/`reset`), and restructure the internals to support it (a field becomes an `Option`,
a `Vec` becomes a map or a small-vector, a value is stored pre-encoded, validation moves from one place to another). The new API itself
may be fine; the defect must be in what the restructuring does to the EXISTING API for some inputs or call orders. The demonstration must
use only API that exists before your change.""",
"""Aim for MERGE / REBASE DAMAGE: the kind of defect a badly resolved conflict or a partly applied patch leaves behind - a hunk applied
twice (a field written or a counter advanced two times), a line lost (an assignment, an `else`, a bounds check, an `idx +=`), two similar
blocks swapped or one copied over the other, an older version of a small function restored, a condition inverted while "fixing the
conflict", a constant from the other branch. The result must still compile without warnings, look like intentional code, and pass the
tests; the damage must sit on a path the tests do not take.""",
"""Aim for a LINT-DRIVEN CLEAN-UP applied mechanically: a batch of clippy-style rewrites (`manual_range_contains`, `needless_range_loop`,
`len_zero`, `manual_saturating_arithmetic`, `unwrap_or_default`, `match` -> `if let`, `as` casts -> `From`/`try_from().unwrap_or(..)`,
`checked_*().unwrap_or(..)`, `iter().copied()`, `chunks_exact`, `is_some_and`, inclusive vs exclusive ranges, early `return` instead of
nested `if`) of which exactly ONE is not behaviour-preserving for some inputs. Include two or three harmless rewrites around it so that the
commit reads as routine.""",
 ],
 "r18": [
"""Aim for a defect that needs SEVERAL LIMITS REACHED AT ONCE (combined maxima / second-order boundaries): the maximum count together with
the maximum padding and a maximum-length text; a length that is a multiple of 4 AND of 256; the last legal value of one field with the
first illegal value of another; sums and products of two individually legal quantities that cross a third limit (u8, u16, 31, 255, 65536
words). Each quantity on its own - at its maximum or not - must behave exactly as before; only the combination differs.""",
"""Aim for a DATA-DEPENDENT SHORTCUT: code that skips, merges, compresses or stops early depending on the VALUES it sees - equal or
adjacent entries coalesced, a run of zeros skipped, a prefix comparison that stops at the first difference or at the shorter length, an
"unchanged since last time" check that compares the wrong thing, sorting or de-duplicating as a side effect of a lookup, an early `break`
on a sentinel value that is also legal data. The triggering values must be legal and inside what the property quantifies over, and
unremarkable values - distinct, non-zero, unsorted - must behave exactly as before.""",
"""Aim for an OWNERSHIP / LIFETIME REFACTOR gone subtly wrong: `Cow` replaced by (or replacing) owned or borrowed storage, `into_owned` /
`to_owned` / `to_vec` taken at the wrong moment or of the wrong range (before a later setter changes it, without the prefix, including
the header), a builder that becomes `'static` by copying only part of its state, a parsed view that re-slices its input (`&data[a..b]`)
with bounds computed for the old representation, `Clone` of a value that shares what it should copy or copies what it should share. The
borrowed path the tests use must stay byte-for-byte as before.""",
 ],
 "r19": [
"""Aim for WORD-AT-A-TIME / BATCHED processing with a remainder loop: code rewritten to handle 4, 8 or 16 bytes (or 2, 4 entries) per
step - `chunks_exact(N)` plus `remainder()`, an unrolled loop with a tail, `u32`/`u64::from_be_bytes` over several fields at once, a
fast path for whole words or for lists whose length is a multiple of the batch, `copy_from_slice` of a whole block instead of field by
field - where the TAIL, the odd-sized case or the block boundary is handled slightly differently from the main loop. Sizes and counts
that are a multiple of the batch (what the tests use) must behave bit-for-bit as before.""",
"""Aim for a DATA-STRUCTURE SWAP: a collection or representation replaced by another for good-looking reasons (allocation, determinism,
speed) - `BTreeSet`/`BTreeMap`/`HashMap` replaced by a sorted or unsorted `Vec` with `binary_search`, `dedup`, `retain`, `sort_unstable_by_key`;
a `Vec` replaced by a fixed array plus a length, or by an iterator chain; `Option<u8>` by a sentinel; a `(start, len)` pair by a `Range`; a
`u32` field split into or merged from bit-fields; a `String`/`&str` by bytes - where one of the operations on the new representation is
not equivalent to the old one for some contents (duplicates, order of insertion, capacity exceeded, the sentinel being legal data, wrap-around).
Unremarkable contents must behave exactly as before.""",
"""Aim for TWO SOURCES OF TRUTH that agree on every ordinary packet: the same quantity is available in two places (header length field vs
slice length, count field vs number of entries that fit, padding bit vs last byte, an item's length octet vs the distance to the next item,
`calculate_size()` vs what `write_into` advances, `MIN_PACKET_LEN` vs literal offsets, the FCI length vs the packet length minus header and
padding), and your change makes ONE consumer use the other source - or derive its value in a new way - so that it differs only where the two
sources legitimately differ or where one of them is not validated on that path. Everything the tests use must stay as before.""",
 ],
 "r20": [
"""Aim for a PORTABILITY or OVERFLOW-HARDENING change: making the crate "safe on 32-bit / 16-bit targets" or "overflow-proof" by moving length
and offset arithmetic to `u32`/`u16`, `checked_*`/`saturating_*`/`try_from(..).unwrap_or(MAX)`, pre-clamping inputs, or rejecting sizes
"that cannot occur" - where the new arithmetic differs from the old for large but LEGAL values on an ordinary 64-bit build (packets near 65536
words, FCI near the maximum, 255-byte texts with 31 sources, sums that the old code carried in `usize`). Values of ordinary size must behave
bit-for-bit as before.""",
"""Aim for STATE LEFT BEHIND: something that persists between two calls on the same object and that the second call wrongly trusts - a builder
that is sized, written, then modified and written again; an iterator that is cloned, partially advanced, or asked again after `None` / after an
`Err`; a value computed lazily on first use and never invalidated; a `&mut self` method that leaves a half-updated field when it returns early;
`Default`/`Clone` of an object in a non-initial state. A fresh object used once, front to back (what the tests do), must behave exactly as before.""",
"""Aim for a DOC-DRIVEN change: "make the code do what the comment / doc string / RFC sentence says" where that sentence is slightly inaccurate,
ambiguous, or about a different quantity (bytes vs words, including vs excluding the header, the padding, the terminating NUL, the length
octet; 0-based vs 1-based; inclusive vs exclusive) - so the commit reads as a correctness fix, cites the text, and is wrong for the cases where
the two readings differ. The cases the tests use must be ones where both readings agree.""",
 ],
 "r21": [
"""Aim for a defect visible only through a SECONDARY PUBLIC ENTRY POINT - public API next to the main path that applications and other
crates do call: `write_into_unchecked` called directly (on an exactly sized or a longer buffer), an FCI builder or an SDES chunk / item
builder written on its own, `FciParser::parse` called directly on control information, the `RtcpPacketParserExt` getters (`version`,
`count`, `length`, ...), `try_as` / `TryFrom` in all their forms, `utils`-level public helpers, `Clone`d or re-used values. The main path
(`write_into` on a packet builder, `parse` + the primary accessors) that the tests use must behave bit-for-bit as before.""",
"""Aim for a change to a PUBLIC CONSTANT, ASSOCIATED CONST, DEFAULT or DEFAULTED TRAIT ITEM: `MIN_PACKET_LEN`, `MAX_COUNT`, `PACKET_TYPE`,
`FCI_FORMAT`, the `SdesItem::*` type constants, an `EXPECTED_SIZE`, a `Default` impl or the initial value a builder starts from, a defaulted
trait method or const that one implementor now overrides (or no longer does) - made for a good-looking reason (naming a magic number,
aligning with the RFC text, sharing a definition) - so that code which derives from the constant changes behaviour in a corner while the
places that still use a literal stay as they were. Everything the tests exercise must be unchanged.""",
"""Aim for a RUST SEMANTICS SUBTLETY: operator precedence (`<<` vs `+`, `|` vs `+`, `as` binding tighter than arithmetic, `!` on an integer vs
a bool), integer promotion in `as` chains (sign extension, truncation before vs after a shift), inclusive vs exclusive ranges, a shadowed
variable, a closure capturing a value before it is updated, lazy iterator adaptors that are never driven or driven twice, `zip` / `take` /
`chunks` truncating silently, `sort` stability or `dedup` needing sorted input, `min`/`max` argument order with equal keys, `Option` combinators
(`or` vs `or_else`, `and_then` vs `map`, `unwrap_or_default`) evaluating or defaulting where they should not. The code must read as correct
at a glance and be correct for every value the tests use.""",
 ],
 "r22": [
"""Aim for an MSRV BACKPORT: "lower the minimum supported Rust version" by replacing newer std APIs with hand-written equivalents -
`next_multiple_of`, `div_ceil`, `is_some_and`, `abs_diff`, `split_first_chunk` / `first_chunk`, `array::from_fn`, `chunks_exact` + `remainder`,
`try_into` on slices, `u16::from_be_bytes` on arrays, `checked_*`/`saturating_*`, `iter().copied()`, `matches!`, `let else`, `Option::zip`,
inclusive ranges in patterns - or the reverse modernisation, where ONE of the replacements is not equivalent for some inputs (zero, an exact
multiple, the maximum value, an empty slice, a length not divisible by the chunk size). Include two or three correct replacements around it so
the commit reads as routine. Everything the tests use must behave as before.""",
"""Aim for a TEXT-HANDLING slip: bytes vs `char`s vs UTF-8 length (`len()` vs `chars().count()`), `from_utf8_lossy` / `to_string_lossy` where
exact bytes are owed, trimming or case-folding "for robustness", NUL or control characters treated as terminators, truncation at a char
boundary vs at a byte count, multi-byte characters straddling a limit (255, 4-byte alignment), ASCII checks via `is_ascii_alphanumeric` vs
`is_ascii`, `str::as_bytes` vs an owned copy taken before a later change. If this property has no text, do the analogous thing for opaque
byte payloads (a byte value treated specially: 0x00, 0xff, 0x80). Plain ASCII letters of ordinary length (what the tests use) must behave
exactly as before.""",
"""Aim for an ITERATOR / STATE-MACHINE REWRITE: a hand-written iterator struct or loop replaced by `iter::from_fn`, `successors`, `scan`,
`map_while`, `take_while`, `fuse`, `peekable`, `flat_map`, or the reverse (an adaptor chain unrolled into a struct with an index and a flag) -
where termination, the item after an error, the behaviour after `None`, the handling of a trailing partial element, or what `take_while` /
`map_while` silently CONSUME differs from the original for some inputs. If this property has no iterator on its path, do the analogous thing
to a writer loop (a loop over list entries rewritten with adaptors). A single front-to-back pass over well-formed input must behave as before.""",
 ],
}


def prepare(root, fl):
    flavour = FLAVOURS[fl]
    avoid = {}
    for n in sorted(os.listdir('/verif/seeded')):
        p = '/verif/seeded/%s/meta.json' % n
        if os.path.exists(p):
            m = json.load(open(p))
            avoid.setdefault(m['property'], []).append((m.get('summary') or '').split('. ')[0][:110])
    os.makedirs(root, exist_ok=True)
    i = 0
    for l in open('/verif/properties.jsonl'):
        p = json.loads(l)
        pid = p['id']
        wt = '%s/%s' % (root, pid)
        subprocess.run(['git', '-C', '/repo', 'worktree', 'add', '--detach', wt, 'HEAD'], check=True, stdout=subprocess.DEVNULL, stderr=subprocess.DEVNULL)
        av = ' / '.join('(%d) %s' % (k + 1, a) for k, a in enumerate(avoid.get(pid, [])))
        task = f"""# Task: seed a realistic defect into the rtcp-types crate

You are working in `{wt}`, which is your own scratch git worktree of the Rust crate `rtcp-types`
(a small library that parses and writes RTCP packets: RFC 3550 SR/RR/SDES/BYE/APP, RFC 4585/5104
feedback FCI, zero-copy parsers and builders). Work ONLY inside this directory. Never touch /repo or /verif
(do not read /verif either). There is no network: always pass `--offline` to cargo.
Do NOT use `git stash` (the stash is shared between worktrees and other people are using it); to test
without your change use `git diff > {wt}/my.diff && git apply -R {wt}/my.diff` and re-apply afterwards.
Keep your final answer short (under 300 words) and do not paste large code or logs into it. Finish within about
15 minutes; write the three deliverable files as soon as you have a working change and demo.

## The property

**{p['title']}**

{p['statement']}

Quantified over: {p['quantifier']['text']}

## What to produce

Make ONE change to the crate's source (files under `src/` only, not tests, not Cargo.toml) that **breaks this
property** while
  * the crate still compiles without new warnings,
  * the existing test suite, unedited, still passes: `cargo test --offline` (94 tests), and
  * the change looks like something a maintainer could plausibly commit (a refactor, an optimisation, a fast path,
    a "simplification", a hardening gone slightly wrong, a forgotten case) — not sabotage, no dead code, no magic
    constants that have no reason to be there, no special-casing of a marker value.

{flavour[i % 3]}
If that flavour cannot break this property, pick the closest thing that does. Keep the change small (typically 1–25
lines). Make sure the change really violates THIS property as stated (not merely some other expectation), and that
the triggering case lies inside the set the property quantifies over.

Earlier seeded changes for this property already did the following; do something clearly different (a different
function AND a different mechanism): {av}

Also write a demonstration `demo.rs`: a Rust integration-test file (it will be copied to `tests/demo.rs` and run
with `cargo test --offline --test demo`), using only the crate's public API (`use rtcp_types::...`), with one or
more `#[test]` functions that **fail with your change and pass without it**. Verify both directions yourself.

## Deliverables (all in the root of `{wt}`)

1. `patch.diff` — output of `git diff` for your source change only (must apply with `git apply` to a clean checkout of HEAD; touching only `src/`).
2. `demo.rs` — the demonstration described above (keep it in the worktree root; do not leave a copy in `tests/`).
3. `meta.json` — `{{"property": "{pid}", "summary": "<what you changed and why it looks plausible>", "needs": "<what exactly is needed for the defect to manifest, and how rare that is>", "ran": ["<commands you ran and their outcomes>"]}}`

Leave the worktree with your source change applied (so `git diff` shows it) and no other modified tracked files
(my.diff, patch.diff, demo.rs, meta.json are untracked and fine).
When done, reply with a 3–6 line summary: the change, what it needs to manifest, and the results of the test
suite and of the demo with and without the change.
"""
        open(wt + '/TASK.md', 'w').write(task)
        i += 1
    print("prepared", i, "worktrees under", root)


if __name__ == '__main__':
    if len(sys.argv) == 4 and sys.argv[1] == 'prepare':
        prepare(sys.argv[2], sys.argv[3])
    else:
        print(__doc__)
        sys.exit(2)
