#!/bin/bash
# ad hoc: try.sh NAME PROP [dbg|rel] [K]  - seeded change NAME (or a directory holding patch.diff) in a scratch worktree, property PROP's quick workload (one native tier); prints signatures
N=$1; P=$2; V=${3:-dbg}; K=${4:-30}
if [ "$V" = rel ]; then python3 /verif/selftest/scratch.py up "$N" $K --release >/tmp/try-$K.log 2>&1; B=/tmp/mx-$K/harness/target/release/rtcpmon; (cd /tmp/mx-$K/harness && CARGO_NET_OFFLINE=true cargo build --offline --release >>/tmp/try-$K.log 2>&1)
else python3 /verif/selftest/scratch.py up "$N" $K >/tmp/try-$K.log 2>&1; B=/tmp/mx-$K/harness/target/debug/rtcpmon; fi
grep -E "^apply: [^0]|^build: [^0]" /tmp/try-$K.log
for p in ${P//,/ }; do
(cd /tmp/mx-$K && $B run --prop $p --seed ${VERIF_SEED:-1} --threads 8 --tool native-$V --out /tmp/mx-$K/p.json --replays /tmp/mx-$K/replays 2>&1 | grep -E "RAW-VIOLATION|INCONCLUSIVE|HANG|ABORT|panicked at|evaluations" | cut -c1-260 | head -${LINES_MAX:-12})
done
python3 /verif/selftest/scratch.py down $K >/dev/null 2>&1
