#!/usr/bin/env python3
"""Ad hoc: scratch.py up NAME [K]  -> /tmp/mx-K/{repo (worktree of /repo + seeded/NAME/patch.diff), harness (copy, path dep on it)}, builds debug;
          scratch.py down [K]     -> removes it. Prints the binary path. Self-test tooling only."""
import sys, os
sys.path.insert(0, os.path.dirname(os.path.abspath(__file__)))
import matrix
a = sys.argv[1:]
k = int(a[2]) if len(a) > 2 else (int(a[1]) if len(a) > 1 and a[0] == "down" else 30)
if a[0] == "up":
    root, wt, hz = matrix.setup_worker(k)
    d = a[1] if os.path.isdir(a[1]) else os.path.join(matrix.SEEDED, a[1])
    code, out = matrix.sh(["git", "apply", os.path.join(d, "patch.diff")], cwd=wt)
    print("apply:", code, out[-300:])
    code, out = matrix.sh(["cargo", "build", "--offline"] + (["--release"] if "--release" in a else []), cwd=hz, env=matrix.env_offline())
    print("build:", code, out[-400:] if code else "")
    print(os.path.join(hz, "target", "debug", "rtcpmon"))
else:
    matrix.teardown_worker(k)
